// Fallback for property C15 when dsspseam.cpp (which calls static functions of dssp.cpp) does not build
// against the tree under test: only the two extern entry points declared in geometry.h are used.
#include "geometry.cpp"
#include "dssp.cpp"

extern "C" {

int dsspseam_hbonds(const float* framexyz, const int* nco_indices, const int* ca_indices,
                    const int* is_proline, int n_atoms, int n_residues, int* hbonds_out, float* henergies_out)
{
    std::vector<int> hbonds(n_residues*2, -1);
    std::vector<float> henergies(n_residues*2, 0);
    kabsch_sander(framexyz, nco_indices, ca_indices, is_proline, 1, n_atoms, n_residues, &hbonds[0], &henergies[0]);
    for (int i = 0; i < 2*n_residues; i++) { hbonds_out[i] = hbonds[i]; henergies_out[i] = henergies[i]; }
    return 0;
}

int dsspseam_dssp(const float* xyz, const int* nco_indices, const int* ca_indices, const int* is_proline,
                  const int* chain_ids, int n_frames, int n_atoms, int n_residues, char* secondary)
{
    dssp(xyz, nco_indices, ca_indices, is_proline, chain_ids, n_frames, n_atoms, n_residues, secondary);
    return 0;
}

}
