// Kernel seam for C13: exposes the static functions of mdtraj/geometry/src/sasa.cpp to ctypes.
#include "sasa.cpp"

extern "C" {

void seam_sphere_points(float* out, int n) { generate_sphere_points(out, n); }

// one frame through asa_frame with freshly zeroed work/output buffers
void seam_asa_frame(const float* frame, int n_atoms, const float* radii, int n_pts,
                    const int* mask, float* areas) {
    float* sp = (float*) malloc(sizeof(float) * 3 * n_pts);
    generate_sphere_points(sp, n_pts);
    int* wb1 = (int*) malloc(sizeof(int) * n_atoms);
    float* wb2 = (float*) malloc(sizeof(float) * 3 * n_pts);
    for (int i = 0; i < n_atoms; i++) areas[i] = 0;
    asa_frame(frame, n_atoms, radii, sp, n_pts, wb1, wb2, mask, areas);
    free(sp); free(wb1); free(wb2);
}

}
