// Kernel seam for C13: exposes the static point-set generator of mdtraj/geometry/src/sasa.cpp to ctypes.
// Only generate_sphere_points(float*, int) is referenced: the check must keep compiling when other internal
// signatures (asa_frame, ...) change; if even this one changes, props/C13.py skips the comparison with a WARNING.
#include "sasa.cpp"

extern "C" {

void seam_sphere_points(float* out, int n) { generate_sphere_points(out, n); }

}
