// Kernel seam for C14: drives kabsch_sander() of mdtraj/geometry/src/geometry.cpp on exactly-sized heap
// copies of the inputs, so that an AddressSanitizer build reports any read outside the arrays.
#include "geometry.cpp"
#include <cstring>
#include <cstdlib>

extern "C" {

// returns 0; hbonds (n_frames*n_res*2 int) and henergies (float) are filled like mdtraj's wrapper does
int seam_kabsch_sander(const float* xyz_in, const int* nco_in, const int* ca_in, const int* pro_in,
                       int n_frames, int n_atoms, int n_res, int* hbonds_out, float* henergies_out) {
    size_t nx = (size_t) n_frames * n_atoms * 3;
    float* xyz = (float*) malloc(nx * sizeof(float));
    int* nco = (int*) malloc((size_t) n_res * 3 * sizeof(int));
    int* ca = (int*) malloc((size_t) n_res * sizeof(int));
    int* pro = (int*) malloc((size_t) n_res * sizeof(int));
    int* hb = (int*) malloc((size_t) n_frames * n_res * 2 * sizeof(int));
    float* he = (float*) malloc((size_t) n_frames * n_res * 2 * sizeof(float));
    memcpy(xyz, xyz_in, nx * sizeof(float));
    memcpy(nco, nco_in, (size_t) n_res * 3 * sizeof(int));
    memcpy(ca, ca_in, (size_t) n_res * sizeof(int));
    memcpy(pro, pro_in, (size_t) n_res * sizeof(int));
    for (size_t i = 0; i < (size_t) n_frames * n_res * 2; i++) { hb[i] = -1; he[i] = NAN; }
    kabsch_sander(xyz, nco, ca, pro, n_frames, n_atoms, n_res, hb, he);
    memcpy(hbonds_out, hb, (size_t) n_frames * n_res * 2 * sizeof(int));
    memcpy(henergies_out, he, (size_t) n_frames * n_res * 2 * sizeof(float));
    free(xyz); free(nco); free(ca); free(pro); free(hb); free(he);
    return 0;
}

}
