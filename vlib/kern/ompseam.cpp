// Harness TU for C08: the repository's hand-written OpenMP kernels, driven through ctypes.
// Built in flavour "mc" (TSan instrumentation + vlib/sched/sched.c instead of libgomp) for schedule
// exploration and in flavour "rel" (real libgomp) for the free-running conformance pass.
#include "sasa.cpp"
#include "neighborlist.cpp"
#include "center.cpp"
#include <cstring>
#include <omp.h>

extern "C" {

// Self-test of the schedule explorer (not repository code): a classic lost update.  With T threads each doing
// `reps` unsynchronised read-modify-write steps the result is T*reps only if no thread is preempted between its
// read and its write; the explorer must find a schedule with a smaller result at preemption bound 1.
int seam_selftest_racy_counter(int reps) {
    volatile int counter = 0;
    int expected = 0;
    #pragma omp parallel
    {
        for (int k = 0; k < reps; k++) {
            int v = counter;
            counter = v + 1;
        }
        #pragma omp barrier
        #pragma omp single
        expected = omp_get_num_threads() * reps;
    }
    return counter - expected;     // 0 iff no update was lost
}

// The same lost update inside a `schedule(dynamic,1)` loop (chunks are handed out through the runtime's shared counter):
// must be caught as well.  `seam_selftest_dynamic_sum` is the race-free counterpart: every iteration writes its own slot,
// whichever thread gets which chunk, so every schedule must give the same output.
int seam_selftest_racy_counter_dynamic(int n) {
    volatile int counter = 0;
    #pragma omp parallel for schedule(dynamic, 1)
    for (int k = 0; k < n; k++) {
        int v = counter;
        counter = v + 1;
    }
    return counter - n;
}
int seam_selftest_dynamic_sum(int n, int* out) {
    #pragma omp parallel
    {
        #pragma omp for schedule(dynamic, 2)
        for (int k = 0; k < n; k++) out[k] = k * k + 1;
        #pragma omp for schedule(guided)
        for (int k = 0; k < n; k++) out[k] += k;
    }
    int s = 0;
    for (int k = 0; k < n; k++) s += out[k];
    return s;
}

void seam_sasa(int n_frames, int n_atoms, const float* xyz, const float* radii, int n_sphere_points,
               const int* atom_mapping, const int* selection_mask, int n_groups, float* out) {
    sasa(n_frames, n_atoms, xyz, radii, n_sphere_points, atom_mapping, selection_mask, n_groups, out);
}

void seam_center(float* coords, float* traces, int n_frames, int n_atoms) {
    inplace_center_and_trace_atom_major(coords, traces, n_frames, n_atoms);
}

// neighbour list of one frame flattened: out_counts[i] = number of neighbours of atom i, out_flat = concatenation
// (at most cap entries).  Returns the total number of entries.
int seam_neighborlist(const float* xyz, int n_atoms, float cutoff, const float* box, int* out_counts, int* out_flat, int cap) {
    std::vector<std::vector<int> > nb = _compute_neighborlist(xyz, n_atoms, cutoff, box);
    int n = 0;
    for (int i = 0; i < n_atoms; i++) {
        out_counts[i] = (int) nb[i].size();
        for (size_t k = 0; k < nb[i].size(); k++) { if (n < cap) out_flat[n] = nb[i][k]; n++; }
    }
    return n;
}

}
