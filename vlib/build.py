"""vbuild: rebuild mdtraj's extension modules from the working tree with plain gcc.

No Cython exists in this sandbox, so the generated .c/.cpp next to each .pyx is
compiled together with the hand-written C/C++ sources, using the flags that
basesetup.py would use.  Objects are cached by content hash under
/verif/.cache/obj, linked modules live in /verif/.cache/build/<hash>/ and are
injected with a sys.meta_path finder (see overlay.py).  /repo's own in-place
.so files are never touched.
"""
import hashlib
import json
import os
import subprocess
import threading
import sys
import sysconfig
import time
from concurrent.futures import ThreadPoolExecutor

VERIF = os.path.dirname(os.path.dirname(os.path.abspath(__file__)))
CACHE = os.environ.get("VERIF_CACHE", os.path.join(VERIF, ".cache"))
PY = "/venv/bin/python"


def repo_dir():
    return os.environ.get("VERIF_REPO", "/repo")


OMP = ["-fopenmp"]
SSE = ["-msse2", "-mssse3"]
OPT = ["-O3", "-funroll-loops", "--std=c++11"]
WARN = ["-Wno-unused-function", "-Wno-unreachable-code", "-Wno-sign-compare"]
GEOM_ARGS = OMP + SSE + OPT + WARN

# module -> (sources (generated Cython file last), include dirs, extra args, language, macros, libs)
EXTENSIONS = {
    "mdtraj.formats.xtc": dict(
        sources=["mdtraj/formats/xtc/src/xdrfile.c", "mdtraj/formats/xtc/src/xdr_seek.c",
                 "mdtraj/formats/xtc/src/xdrfile_xtc.c", "mdtraj/formats/xtc/xtc.c"],
        inc=["mdtraj/formats/xtc/include/", "mdtraj/formats/xtc/"], args=WARN, lang="c"),
    "mdtraj.formats.trr": dict(
        sources=["mdtraj/formats/xtc/src/xdrfile.c", "mdtraj/formats/xtc/src/xdr_seek.c",
                 "mdtraj/formats/xtc/src/xdrfile_trr.c", "mdtraj/formats/xtc/trr.c"],
        inc=["mdtraj/formats/xtc/include/", "mdtraj/formats/xtc/"], args=WARN, lang="c"),
    "mdtraj.formats.dcd": dict(
        sources=["mdtraj/formats/dcd/src/dcdplugin.c", "mdtraj/formats/dcd/dcd.c"],
        inc=["mdtraj/formats/dcd/include/", "mdtraj/formats/dcd/"], args=WARN, lang="c"),
    "mdtraj.formats.dtr": dict(
        sources=["mdtraj/formats/dtr/src/dtrplugin.cxx", "mdtraj/formats/dtr/dtr.cpp"],
        inc=["mdtraj/formats/dtr/include/", "mdtraj/formats/dtr/"], args=WARN, lang="c++",
        macros=["-DDESRES_READ_TIMESTEP2=1"]),
    "mdtraj._rmsd": dict(
        sources=["mdtraj/rmsd/src/theobald_rmsd.cpp", "mdtraj/rmsd/src/rotation.cpp",
                 "mdtraj/rmsd/src/center.cpp", "mdtraj/rmsd/_rmsd.cpp"],
        inc=["mdtraj/rmsd/include"], args=GEOM_ARGS, lang="c++", libs=["-lgomp"]),
    "mdtraj._lprmsd": dict(
        sources=["mdtraj/rmsd/src/theobald_rmsd.cpp", "mdtraj/rmsd/src/rotation.cpp",
                 "mdtraj/rmsd/src/center.cpp", "mdtraj/rmsd/src/fancy_index.cpp",
                 "mdtraj/rmsd/src/Munkres.cpp", "mdtraj/rmsd/src/euclidean_permutation.cpp",
                 "mdtraj/rmsd/_lprmsd.cpp"],
        inc=["mdtraj/rmsd/include"], args=GEOM_ARGS, lang="c++", libs=["-lgomp"]),
    "mdtraj.geometry._geometry": dict(
        sources=["mdtraj/geometry/src/sasa.cpp", "mdtraj/geometry/src/dssp.cpp",
                 "mdtraj/geometry/src/geometry.cpp", "mdtraj/geometry/src/_geometry.cpp"],
        inc=["mdtraj/geometry/include", "mdtraj/geometry/src/kernels"], args=GEOM_ARGS,
        lang="c++", libs=["-lgomp"]),
    "mdtraj.geometry.drid": dict(
        sources=["mdtraj/geometry/src/dridkernels.cpp", "mdtraj/geometry/src/moments.cpp",
                 "mdtraj/geometry/drid.cpp"],
        inc=["mdtraj/geometry/include"], args=GEOM_ARGS, lang="c++", libs=["-lgomp"]),
    "mdtraj.geometry.neighbors": dict(
        sources=["mdtraj/geometry/src/neighbors.cpp", "mdtraj/geometry/neighbors.cpp"],
        inc=["mdtraj/geometry/include"], args=GEOM_ARGS, lang="c++", libs=["-lgomp"]),
    "mdtraj.geometry.neighborlist": dict(
        sources=["mdtraj/geometry/src/neighborlist.cpp", "mdtraj/geometry/neighborlist.cpp"],
        inc=["mdtraj/geometry/include"], args=GEOM_ARGS, lang="c++", libs=["-lgomp"]),
}


def _sha(*chunks):
    h = hashlib.sha256()
    for c in chunks:
        if isinstance(c, str):
            c = c.encode()
        h.update(c)
        h.update(b"\0")
    return h.hexdigest()


def _read(p):
    with open(p, "rb") as f:
        return f.read()


_HDR_EXT = (".h", ".hpp", ".hxx", ".pxi.h")


def _header_digest(dirs):
    """Digest of every header reachable through the include dirs (conservative dependency set)."""
    items = []
    for d in sorted(set(dirs)):
        if not os.path.isdir(d):
            continue
        for root, _dirs, files in os.walk(d):
            for fn in sorted(files):
                if fn.endswith(_HDR_EXT) or fn.endswith(".c") and "kernels" in root:
                    p = os.path.join(root, fn)
                    items.append((p, hashlib.sha256(_read(p)).hexdigest()))
    return _sha(json.dumps(items))


def _py_includes():
    import numpy
    return ["-I" + sysconfig.get_paths()["include"], "-I" + numpy.get_include()]


def _run(cmd, cwd):
    p = subprocess.run(cmd, cwd=cwd, stdout=subprocess.PIPE, stderr=subprocess.STDOUT, text=True)
    if p.returncode != 0:
        raise RuntimeError("build failed: %s\n%s" % (" ".join(cmd), p.stdout[-4000:]))
    return p.stdout


def compile_object(repo, src, inc, args, lang, macros=(), extra=(), tag="rel"):
    """Compile one translation unit into the object cache; returns the object path."""
    srcp = os.path.join(repo, src)
    incdirs = [os.path.join(repo, i) for i in inc] + [os.path.dirname(srcp)]
    cc = "g++" if lang == "c++" else "gcc"
    flags = ["-fno-strict-overflow", "-DNDEBUG", "-fPIC"]
    if tag == "rel":
        flags += ["-O3"]
    a = [x for x in args if not (lang == "c" and x.startswith("--std=c++"))]
    flags += list(a) + list(macros) + list(extra)
    key = _sha(tag, cc, " ".join(flags), src, _read(srcp), _header_digest(incdirs))
    objdir = os.path.join(CACHE, "obj")
    os.makedirs(objdir, exist_ok=True)
    obj = os.path.join(objdir, key[:40] + ".o")
    if not os.path.exists(obj):
        tmp = obj + ".%d.%d.tmp" % (os.getpid(), threading.get_ident())
        cmd = [cc, "-c", srcp, "-o", tmp] + flags + ["-I" + d for d in incdirs] + _py_includes() + ["-w"]
        _run(cmd, repo)
        os.replace(tmp, obj)
    else:
        os.utime(obj, None)
    return obj, key


def build_overlay(repo=None, verbose=False):
    """Build every extension from `repo`'s working tree; returns the overlay dir."""
    repo = repo or repo_dir()
    t0 = time.time()
    jobs = []
    for mod, e in EXTENSIONS.items():
        for s in e["sources"]:
            jobs.append((mod, s, e))
    with ThreadPoolExecutor(16) as ex:
        res = list(ex.map(lambda j: compile_object(repo, j[1], j[2]["inc"], j[2]["args"], j[2]["lang"],
                                                   j[2].get("macros", ())), jobs))
    per_mod = {}
    for (mod, s, e), (obj, key) in zip(jobs, res):
        per_mod.setdefault(mod, []).append((obj, key))
    allkey = _sha(json.dumps({m: [k for _o, k in v] for m, v in sorted(per_mod.items())}))
    out = os.path.join(CACHE, "build", allkey[:24])
    done = os.path.join(out, ".done")
    if not os.path.exists(done):
        os.makedirs(out, exist_ok=True)
        suffix = sysconfig.get_config_var("EXT_SUFFIX")

        def link(mod):
            e = EXTENSIONS[mod]
            cc = "g++" if e["lang"] == "c++" else "gcc"
            target = os.path.join(out, mod + suffix)
            tmp = target + ".%d.tmp" % os.getpid()
            cmd = [cc, "-shared", "-o", tmp] + [o for o, _k in per_mod[mod]] + e.get("libs", []) + \
                  (["-fopenmp"] if "-fopenmp" in e["args"] else [])
            _run(cmd, repo)
            os.replace(tmp, target)

        with ThreadPoolExecutor(8) as ex:
            list(ex.map(link, list(EXTENSIONS)))
        with open(done, "w") as f:
            f.write(repo)
    else:
        os.utime(done, None)
    _prune()
    if verbose:
        print("vbuild: overlay %s (%.1fs)" % (out, time.time() - t0), file=sys.stderr)
    return out


PRUNE_AGE = 6 * 3600.0     # nothing younger than this is ever removed: concurrent runs (other trees, other checks) may be using it


def _mtime(p):
    try:
        return os.path.getmtime(p)
    except OSError:
        return 0.0


def _prune(keep=6):
    """Age-based, race-tolerant pruning of the build caches.  Several checks (also of different source trees) may run
    at the same time and share /verif/.cache: an entry is removed only when it is old AND beyond the keep count."""
    import shutil
    now = time.time()
    bdir = os.path.join(CACHE, "build")
    try:
        ds = [os.path.join(bdir, d) for d in os.listdir(bdir)]
    except OSError:
        ds = []
    ds = [d for d in ds if os.path.exists(os.path.join(d, ".done"))]
    ds.sort(key=lambda d: _mtime(os.path.join(d, ".done")), reverse=True)
    for d in ds[keep:]:
        if now - _mtime(os.path.join(d, ".done")) > PRUNE_AGE:
            shutil.rmtree(d, ignore_errors=True)
    odir = os.path.join(CACHE, "obj")
    try:
        objs = [os.path.join(odir, f) for f in os.listdir(odir)]
    except OSError:
        return
    if len(objs) > 400:
        objs.sort(key=_mtime, reverse=True)
        for o in objs[400:]:
            if now - _mtime(o) > PRUNE_AGE:
                try:
                    os.remove(o)
                except OSError:
                    pass


def pyx_drift(repo=None):
    """Names of .pyx/.pxi/.pxd whose content differs from the pinned baseline (cannot be rebuilt)."""
    repo = repo or repo_dir()
    base = json.load(open(os.path.join(VERIF, "vlib", "pyx_baseline.json")))
    drift = []
    for rel, h in base.items():
        p = os.path.join(repo, rel)
        try:
            if hashlib.sha256(_read(p)).hexdigest() != h:
                drift.append(rel)
        except FileNotFoundError:
            drift.append(rel)
    return drift


def write_pyx_baseline(repo="/repo"):
    out = {}
    for root, _d, files in os.walk(os.path.join(repo, "mdtraj")):
        for fn in files:
            if fn.endswith((".pyx", ".pxi", ".pxd")):
                p = os.path.join(root, fn)
                out[os.path.relpath(p, repo)] = hashlib.sha256(_read(p)).hexdigest()
    with open(os.path.join(VERIF, "vlib", "pyx_baseline.json"), "w") as f:
        json.dump(out, f, indent=1, sort_keys=True)


# ---------------------------------------------------------------------------
# kernel harness libraries (ctypes): small C++ files under vlib/kern that #include
# the repo's kernel sources so that their static functions can be driven directly.

def build_kernlib(name, repo=None, flavour="rel"):
    """Compile vlib/kern/<name>.cpp (which #includes repo sources) into a shared library."""
    repo = repo or repo_dir()
    src = os.path.join(VERIF, "vlib", "kern", name + ".cpp")
    incs = ["mdtraj/geometry/include", "mdtraj/geometry/src/kernels", "mdtraj/geometry/src",
            "mdtraj/rmsd/include", "mdtraj/rmsd/src"]
    incdirs = [os.path.join(repo, i) for i in incs]
    if flavour == "rel":
        flags = ["-O3", "-funroll-loops", "--std=c++11", "-fopenmp", "-msse2", "-mssse3", "-fPIC"]
        link = ["-fopenmp"]
    elif flavour == "asan":
        flags = ["-O1", "-g", "--std=c++11", "-fopenmp", "-msse2", "-mssse3", "-fPIC",
                 "-fsanitize=address", "-fno-omit-frame-pointer"]
        link = ["-fopenmp", "-fsanitize=address"]
    elif flavour == "mc":
        flags = ["-O1", "-g", "--std=c++11", "-fopenmp", "-msse2", "-mssse3", "-fPIC", "-fsanitize=thread"]
        link = []
    else:
        raise ValueError(flavour)
    # dependency digest: the harness file + all C/C++ sources and headers it may include
    dep = [_read(src)]
    for d in incdirs:
        for root, _dirs, files in os.walk(d):
            for fn in sorted(files):
                if fn.endswith((".h", ".hpp", ".cpp", ".c")) and not fn.startswith("_geometry"):
                    dep.append(_read(os.path.join(root, fn)))
    if flavour == "mc":
        dep.append(_read(os.path.join(VERIF, "vlib", "sched", "sched.c")))
    key = _sha(flavour, " ".join(flags), *dep)
    outdir = os.path.join(CACHE, "kern")
    os.makedirs(outdir, exist_ok=True)
    so = os.path.join(outdir, "%s_%s_%s.so" % (name, flavour, key[:20]))
    if not os.path.exists(so):
        tmp = so + ".%d.tmp" % os.getpid()
        extra = []
        if flavour == "mc":
            extra = [os.path.join(VERIF, "vlib", "sched", "sched.c")]
        cmd = ["g++", "-shared", "-o", tmp, src] + flags + ["-I" + d for d in incdirs] + \
              ["-DVERIF_REPO_ROOT=\"%s\"" % repo, "-w"] + link
        if flavour == "mc":
            # compile the scheduler runtime separately without instrumentation
            sobj = os.path.join(outdir, "sched_%s.o" % _sha(_read(extra[0]))[:16])
            if not os.path.exists(sobj):
                stmp = sobj + ".%d.tmp" % os.getpid()
                _run(["gcc", "-c", "-O1", "-g", "-fPIC", extra[0], "-o", stmp], repo)
                os.replace(stmp, sobj)
            # compile with the instrumentation, link WITHOUT -fsanitize/-fopenmp: libtsan and libgomp are replaced
            # by the scheduler runtime
            kobj = tmp + ".o"
            _run(["g++", "-c", src, "-o", kobj] + flags + ["-I" + d for d in incdirs] + ["-w"], repo)
            cmd = ["g++", "-shared", "-o", tmp, kobj, sobj]
        _run(cmd, repo)
        os.replace(tmp, so)
        if os.path.exists(tmp + ".o"):
            os.remove(tmp + ".o")
        # prune OLD variants of the same lib/flavour (never a young file: another process may be building or loading it)
        now = time.time()
        for f in os.listdir(outdir):
            q = os.path.join(outdir, f)
            if f.startswith("%s_%s_" % (name, flavour)) and q != so and now - _mtime(q) > PRUNE_AGE:
                try:
                    os.remove(q)
                except OSError:
                    pass
    return so


if __name__ == "__main__":
    if len(sys.argv) > 1 and sys.argv[1] == "baseline":
        write_pyx_baseline()
    else:
        print(build_overlay(verbose=True))


def build_mc_module(mod, repo=None):
    """Build ONE extension module (e.g. 'mdtraj._rmsd') from the generated Cython C++ and the hand-written sources
    with TSan instrumentation and link it against the green-thread scheduler instead of libgomp/libtsan.
    Returns the directory holding the module (to be put in front of the overlay by overlay.install(extra=...))."""
    repo = repo or repo_dir()
    e = EXTENSIONS[mod]
    sched_src = os.path.join(VERIF, "vlib", "sched", "sched.c")
    flags = ["-O1", "-g", "--std=c++11", "-fopenmp", "-msse2", "-mssse3", "-fPIC", "-fsanitize=thread", "-DNDEBUG", "-w"]
    objs = []
    keys = []
    with ThreadPoolExecutor(8) as ex:
        res = list(ex.map(lambda s_: compile_object(repo, s_, e["inc"], [], e["lang"], e.get("macros", ()), extra=flags, tag="mc"),
                          e["sources"]))
    for o, k in res:
        objs.append(o)
        keys.append(k)
    key = _sha("mcmod", mod, _read(sched_src), *keys)
    out = os.path.join(CACHE, "mcmods", key[:24])
    target = os.path.join(out, mod + sysconfig.get_config_var("EXT_SUFFIX"))
    if not os.path.exists(target):
        os.makedirs(out, exist_ok=True)
        sobj = os.path.join(out, "sched.%d.o" % os.getpid())
        _run(["gcc", "-c", "-O1", "-g", "-fPIC", sched_src, "-o", sobj], repo)
        tmp = target + ".%d.tmp" % os.getpid()
        _run(["g++", "-shared", "-o", tmp] + objs + [sobj], repo)
        os.replace(tmp, target)
    return out
