"""Independent readers of the files mdtraj writes (share no code with mdtraj's own readers).

Every reader returns a dict with native-unit numbers:
    xyz (F, N, 3) float64, unit ('A' or 'nm'), time (F,) or None, lengths (F,3)/None, angles (F,3)/None,
    vectors (F,3,3)/None   — whatever the format physically holds.
"""
import gzip
import struct

import numpy as np


def _open_text(p):
    return gzip.open(p, "rt") if p.endswith(".gz") else open(p)


# ------------------------------------------------------------------------- text formats

def read_xyz(p):
    frames = []
    with _open_text(p) as f:
        lines = f.read().split("\n")
    i = 0
    while i < len(lines) and lines[i].strip():
        n = int(lines[i])
        fr = [[float(x) for x in lines[i + 2 + k].split()[1:4]] for k in range(n)]
        frames.append(fr)
        i += n + 2
    return dict(xyz=np.array(frames, float), unit="A", time=None, lengths=None, angles=None)


def read_mdcrd(p, n_atoms, has_box):
    with open(p) as f:
        f.readline()
        body = f.read()
    # fixed width 8-character fields, 10 per line; box line "%8.3f %8.3f %8.3f"
    lines = body.split("\n")
    frames, boxes = [], []
    cur = []
    need = 3 * n_atoms
    i = 0
    while i < len(lines):
        ln = lines[i]
        if not ln.strip():
            i += 1
            continue
        vals = [float(ln[k:k + 8]) for k in range(0, len(ln.rstrip()), 8)]
        cur += vals
        i += 1
        if len(cur) >= need:
            assert len(cur) == need, "mdcrd frame overran"
            frames.append(np.array(cur).reshape(n_atoms, 3))
            cur = []
            if has_box:
                boxes.append([float(x) for x in lines[i].split()])
                i += 1
    return dict(xyz=np.array(frames, float), unit="A", time=None,
                lengths=np.array(boxes, float) if has_box else None, angles=None)


def read_lammpstrj(p):
    with open(p) as f:
        lines = f.read().split("\n")
    frames, bounds = [], []
    i = 0
    while i < len(lines):
        if lines[i].startswith("ITEM: TIMESTEP"):
            n = int(lines[i + 3])
            hdr = lines[i + 4]
            b = [[float(x) for x in lines[i + 5 + k].split()] for k in range(3)]
            cols = lines[i + 8].split()[2:]
            ix = [cols.index(c) for c in ("xu", "yu", "zu")]
            idc = cols.index("id")
            rows = [lines[i + 9 + k].split() for k in range(n)]
            rows.sort(key=lambda r: int(r[idc]))
            frames.append([[float(r[j]) for j in ix] for r in rows])
            bounds.append((hdr, b))
            i += 9 + n
        else:
            i += 1
    L, A = [], []
    for hdr, b in bounds:
        if "xy xz yz" in hdr:
            (xlob, xhib, xy), (ylob, yhib, xz), (zlo, zhi, yz) = b
            xlo = xlob - min(0.0, xy, xz, xy + xz)
            xhi = xhib - max(0.0, xy, xz, xy + xz)
            ylo = ylob - min(0.0, yz)
            yhi = yhib - max(0.0, yz)
            lx, ly, lz = xhi - xlo, yhi - ylo, zhi - zlo
            a = lx
            bb = np.sqrt(ly ** 2 + xy ** 2)
            c = np.sqrt(lz ** 2 + xz ** 2 + yz ** 2)
            L.append([a, bb, c])
            A.append([np.degrees(np.arccos((xy * xz + ly * yz) / (bb * c))), np.degrees(np.arccos(xz / c)),
                      np.degrees(np.arccos(xy / bb))])
        else:
            L.append([b[0][1] - b[0][0], b[1][1] - b[1][0], b[2][1] - b[2][0]])
            A.append([90.0, 90.0, 90.0])
    return dict(xyz=np.array(frames, float), unit="A", time=None, lengths=np.array(L), angles=np.array(A))


def read_gro(p):
    with open(p) as f:
        lines = f.read().split("\n")
    frames, times, boxes = [], [], []
    i = 0
    while i < len(lines) and lines[i].strip() != "" or (i + 1 < len(lines) and lines[i + 1].strip().isdigit()):
        title = lines[i]
        n = int(lines[i + 1])
        t = None
        if "t=" in title:
            t = float(title.split("t=")[1].split()[0])
        fr = []
        for k in range(n):
            ln = lines[i + 2 + k]
            body = ln[20:]
            # the three position fields have equal width: find it from the decimal points
            dots = [j for j, ch in enumerate(body) if ch == "."]
            w = dots[1] - dots[0]
            fr.append([float(body[0:w]), float(body[w:2 * w]), float(body[2 * w:3 * w])])
        frames.append(fr)
        times.append(t)
        bx = [float(x) for x in lines[i + 2 + n].split()]
        v = np.zeros((3, 3))
        if len(bx) == 3:
            v[0, 0], v[1, 1], v[2, 2] = bx
        else:
            v[0, 0], v[1, 1], v[2, 2], v[0, 1], v[0, 2], v[1, 0], v[1, 2], v[2, 0], v[2, 1] = bx
        boxes.append(v)
        i += n + 3
        if i >= len(lines):
            break
    return dict(xyz=np.array(frames, float), unit="nm", time=None if any(t is None for t in times) else np.array(times),
                vectors=np.array(boxes), lengths=None, angles=None)


def read_pdb(p):
    frames, cur = [], []
    cryst = None
    with _open_text(p) as f:
        for ln in f:
            rec = ln[:6]
            if rec == "CRYST1" and cryst is None:
                cryst = ([float(ln[6:15]), float(ln[15:24]), float(ln[24:33])],
                         [float(ln[33:40]), float(ln[40:47]), float(ln[47:54])])
            elif rec in ("ATOM  ", "HETATM"):
                cur.append([float(ln[30:38]), float(ln[38:46]), float(ln[46:54])])
            elif rec == "ENDMDL":
                frames.append(cur)
                cur = []
    if cur:
        frames.append(cur)
    F = len(frames)
    return dict(xyz=np.array(frames, float), unit="A", time=None,
                lengths=None if cryst is None else np.array([cryst[0]] * F),
                angles=None if cryst is None else np.array([cryst[1]] * F))


def read_rst7(p):
    with open(p) as f:
        f.readline()
        l2 = f.readline()
        n = int(l2[:5])
        t = float(l2[5:20]) if len(l2.rstrip("\n")) > 5 else None
        vals = []
        for ln in f:
            ln = ln.rstrip("\n")
            vals += [float(ln[k:k + 12]) for k in range(0, len(ln), 12)]
    xyz = np.array(vals[:3 * n]).reshape(1, n, 3)
    rest = vals[3 * n:]
    L = A = None
    if len(rest) >= 6:
        L, A = np.array([rest[:3]]), np.array([rest[3:6]])
    return dict(xyz=xyz, unit="A", time=None if t is None else np.array([t]), lengths=L, angles=A)


# ------------------------------------------------------------------------- XDR (gromacs)

def read_trr(p):
    data = open(p, "rb").read()
    o = 0
    frames, times, boxes = [], [], []
    while o < len(data):
        magic, slen0 = struct.unpack_from(">ii", data, o)
        assert magic == 1993, "bad TRR magic"
        o += 8
        slen, = struct.unpack_from(">i", data, o)
        o += 4 + ((slen + 3) // 4) * 4
        (ir, e, box, vir, pres, top, sym, x, v, f, natoms, step, nre) = struct.unpack_from(">13i", data, o)
        o += 52
        dbl = (box // 9 == 8) if box else (x // (3 * natoms) == 8)
        fl = "d" if dbl else "f"
        w = 8 if dbl else 4
        t, lam = struct.unpack_from(">2" + fl, data, o)
        o += 2 * w
        if box:
            b = struct.unpack_from(">9" + fl, data, o)
            o += 9 * w
            boxes.append(np.array(b).reshape(3, 3))
        else:
            boxes.append(None)
        o += vir + pres
        xs = struct.unpack_from(">%d%s" % (3 * natoms, fl), data, o)
        o += x + v + f
        frames.append(np.array(xs).reshape(natoms, 3))
        times.append(t)
    return dict(xyz=np.array(frames, float), unit="nm", time=np.array(times),
                vectors=None if any(b is None for b in boxes) else np.array(boxes), lengths=None, angles=None)


def read_xtc_headers(p):
    """XTC: header of every frame; coordinates only for <= 9 atoms (stored as raw floats); for compressed
    frames the precision and integer bounding box."""
    data = open(p, "rb").read()
    o = 0
    out = []
    while o < len(data):
        magic, natoms, step = struct.unpack_from(">3i", data, o)
        assert magic == 1995, "bad XTC magic"
        t, = struct.unpack_from(">f", data, o + 12)
        box = np.array(struct.unpack_from(">9f", data, o + 16)).reshape(3, 3)
        o += 52
        n2, = struct.unpack_from(">i", data, o)
        o += 4
        fr = dict(natoms=natoms, step=step, time=t, box=box)
        if natoms <= 9:
            fr["xyz"] = np.array(struct.unpack_from(">%df" % (3 * natoms), data, o)).reshape(natoms, 3)
            o += 12 * natoms
        else:
            prec, = struct.unpack_from(">f", data, o)
            mn = struct.unpack_from(">3i", data, o + 4)
            mx = struct.unpack_from(">3i", data, o + 16)
            small, nbytes = struct.unpack_from(">2i", data, o + 28)
            o += 36 + ((nbytes + 3) // 4) * 4
            fr.update(precision=prec, minint=np.array(mn), maxint=np.array(mx))
        out.append(fr)
    return out


# ------------------------------------------------------------------------- DCD (Fortran records)

def read_dcd(p):
    data = open(p, "rb").read()
    o = 0

    def rec():
        nonlocal o
        n, = struct.unpack_from("<i", data, o)
        body = data[o + 4:o + 4 + n]
        n2, = struct.unpack_from("<i", data, o + 4 + n)
        assert n == n2, "bad Fortran record"
        o += 8 + n
        return body

    h = rec()
    assert h[:4] == b"CORD"
    icntrl = struct.unpack("<20i", h[4:84])
    nset, has_cell, charmm = icntrl[0], icntrl[10], icntrl[19]
    rec()  # title
    natoms, = struct.unpack("<i", rec())
    frames, cells = [], []
    while o < len(data):
        if has_cell:
            c = struct.unpack("<6d", rec())
            cells.append(c)
        x = np.frombuffer(rec(), "<f4")
        y = np.frombuffer(rec(), "<f4")
        z = np.frombuffer(rec(), "<f4")
        frames.append(np.stack([x, y, z], 1))
    L = A = None
    if has_cell:
        c = np.array(cells)
        L = c[:, [0, 2, 5]]
        raw = c[:, [4, 3, 1]]  # alpha, beta, gamma
        # CHARMM/NAMD convention: stored as cosines when |v| <= 1, else degrees
        A = np.where(np.abs(raw) <= 1.0, np.degrees(np.arccos(np.clip(raw, -1, 1))), raw)
    return dict(xyz=np.array(frames, float), unit="A", time=None, lengths=L, angles=A, nset_header=nset)


# ------------------------------------------------------------------------- HDF5 / NetCDF through other libraries

def read_h5(p):
    import tables
    with tables.open_file(p, "r") as f:
        r = f.root
        def get(n):
            return np.array(getattr(r, n).read(), float) if n in r else None
        units = {n: getattr(r, n).attrs.units for n in ("coordinates", "time", "cell_lengths", "cell_angles") if n in r}
        units = {k: (v.decode() if isinstance(v, bytes) else str(v)) for k, v in units.items()}
        return dict(xyz=get("coordinates"), unit="nm", time=get("time"), lengths=get("cell_lengths"),
                    angles=get("cell_angles"), units=units)


def read_nc(p):
    from scipy.io import netcdf_file
    with netcdf_file(p, "r", mmap=False) as f:
        v = f.variables
        def get(n):
            return np.array(v[n][:], float) if n in v else None
        units = {n: (v[n].units.decode() if isinstance(v[n].units, bytes) else v[n].units)
                 for n in ("coordinates", "time", "cell_lengths", "cell_angles") if n in v and hasattr(v[n], "units")}
        xyz = get("coordinates")
        if xyz is not None and xyz.ndim == 2:
            xyz = xyz[None]
        L, A, t = get("cell_lengths"), get("cell_angles"), get("time")
        if L is not None and L.ndim == 1:
            L, A = L[None], A[None]
        if t is not None and t.ndim == 0:
            t = t[None]
        return dict(xyz=xyz, unit="A", time=t, lengths=L, angles=A, units=units)
