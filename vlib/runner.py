"""Single entry point of the verification machinery:  ./check <ID> [--tier quick|thorough] [--replay f]

Rebuilds the extension modules from the working tree (vlib/build.py), installs them, imports
props/<ID>.py and calls its run(ctx).  The property module enumerates its bounded space and
reports violations through ctx.violation(); the runner matches them against known_findings.json,
writes replays and the evidence file, and sets the exit status.
"""
import argparse
import fnmatch
import hashlib
import importlib
import json
import os
import signal
import subprocess
import sys
import time
import traceback

VERIF = os.path.dirname(os.path.dirname(os.path.abspath(__file__)))
sys.path.insert(0, VERIF)

from vlib import build, overlay  # noqa: E402

MAX_REPLAYS = 25


def jsonable(o):
    import numpy as np
    if isinstance(o, dict):
        return {str(k): jsonable(v) for k, v in o.items()}
    if isinstance(o, (list, tuple, set, frozenset)):
        return [jsonable(v) for v in o]
    if isinstance(o, np.ndarray):
        return jsonable(o.tolist())
    if isinstance(o, (np.integer,)):
        return int(o)
    if isinstance(o, (np.floating,)):
        return float(o)
    if isinstance(o, (np.bool_,)):
        return bool(o)
    if isinstance(o, bytes):
        return o.hex()
    if isinstance(o, float) and (o != o or o in (float("inf"), float("-inf"))):
        return repr(o)
    if isinstance(o, (str, int, float, bool)) or o is None:
        return o
    return repr(o)


def load_known():
    fs = list(json.load(open(os.path.join(VERIF, "known_findings.json")))["findings"])
    d = os.path.join(VERIF, "known_findings.d")
    if os.path.isdir(d):
        for fn in sorted(os.listdir(d)):
            if fn.endswith(".json"):
                fs += json.load(open(os.path.join(d, fn)))["findings"]
    return fs


class Ctx:
    def __init__(self, pid, tier, seed, repo, overlay_dir):
        self.pid = pid
        self.tier = tier
        self.quick = tier == "quick"
        self.seed = seed
        self.repo = repo
        self.overlay = overlay_dir
        self.t0 = time.time()
        self.n_violations = 0          # unlisted violations
        self.n_known = 0
        self.known_hit = {}
        self.replays = []
        self.assumptions = []
        self._viol_sigs = {}
        self.known = [f for f in load_known() if f["property"] == pid and f.get("status") == "known"]
        self.scratch = os.path.join(os.environ.get("VERIF_SCRATCH", "/dev/shm"), "verif-%s-%d" % (pid, os.getpid()))
        os.makedirs(self.scratch, exist_ok=True)

    # ---- violations ---------------------------------------------------------------------
    def violation(self, sig, detail, replay):
        """sig: stable signature naming the failing input class / call site (matched against
        known_findings.json); detail: human-readable; replay: json-able object for --replay."""
        for f in self.known:
            if fnmatch.fnmatchcase(sig, f["signature"]):
                self.n_known += 1
                k = f["signature"]
                if k not in self.known_hit:
                    self.known_hit[k] = 0
                    print("KNOWN-FINDING: property=%s %s [%s]" % (self.pid, f["what"], f["signature"]), flush=True)
                self.known_hit[k] += 1
                return False
        self.n_violations += 1
        n = self._viol_sigs.get(sig, 0)
        self._viol_sigs[sig] = n + 1
        if n < 3 and len(self.replays) < MAX_REPLAYS:
            rdir = os.path.join(VERIF, "replays") if self.repo == "/repo" else os.path.join(build.CACHE, "alt-tree", "replays")
            os.makedirs(rdir, exist_ok=True)
            path = os.path.join(rdir, "%s-%d.json" % (self.pid, len(self.replays) + 1))
            with open(path, "w") as fh:
                json.dump(jsonable({"property": self.pid, "signature": sig, "detail": detail,
                                    "replay": replay}), fh, indent=1)
            self.replays.append(path)
            print("VIOLATION property=%s replay=%s" % (self.pid, path), flush=True)
            print("  signature: %s\n  detail: %s" % (sig, str(detail)[:600]), flush=True)
        return True

    def report(self, records):
        """records: iterable of (sig, detail, replay) produced by workers."""
        for sig, detail, replay in records:
            self.violation(sig, detail, replay)

    def assume(self, text):
        if text not in self.assumptions:
            self.assumptions.append(text)

    # ---- parallel map ----------------------------------------------------------------------
    def pmap(self, fn, items, procs=None, chunksize=1):
        """Ordered parallel map over fork()ed workers (the parent has mdtraj imported and has not
        started any OpenMP team: OMP_NUM_THREADS=1)."""
        import multiprocessing as mp
        items = list(items)
        procs = procs or int(os.environ.get("VERIF_PROCS", "16"))
        if procs <= 1 or len(items) <= 1:
            return [fn(i) for i in items]
        c = mp.get_context("fork")
        from concurrent.futures import ProcessPoolExecutor
        # a worker killed by a signal raises BrokenProcessPool instead of hanging the pool
        with ProcessPoolExecutor(min(procs, len(items)), mp_context=c) as ex:
            return list(ex.map(fn, items, chunksize=chunksize))


class Watchdog:
    """SIGALRM horizon for one execution: a hang becomes an exception (livelock report)."""

    class Timeout(Exception):
        pass

    def __init__(self, seconds):
        self.seconds = seconds

    def _h(self, *_a):
        raise Watchdog.Timeout()

    def __enter__(self):
        self.old = signal.signal(signal.SIGALRM, self._h)
        signal.setitimer(signal.ITIMER_REAL, self.seconds)

    def __exit__(self, *a):
        signal.setitimer(signal.ITIMER_REAL, 0)
        signal.signal(signal.SIGALRM, self.old)
        return False


def write_evidence(ctx, level, coverage):
    ev = {
        "property_id": ctx.pid,
        "tier": ctx.tier,
        "seed": ctx.seed,
        "level": level,
        "coverage": jsonable(coverage),
        "assumptions": ctx.assumptions,
        "wall_s": round(time.time() - ctx.t0, 3),
        "violations": ctx.n_violations,
        "known_findings_hit": ctx.known_hit,
        "repo": ctx.repo,
    }
    # evidence/ and replays/ describe /repo only; runs against another tree (VERIF_REPO) go to the cache
    edir = os.path.join(VERIF, "evidence") if ctx.repo == "/repo" else os.path.join(build.CACHE, "alt-tree", "evidence")
    os.makedirs(edir, exist_ok=True)
    path = os.path.join(edir, ctx.pid + ".json")
    with open(path, "w") as f:
        json.dump(ev, f, indent=1)
    # validate with the tooling venv's jsonschema when present
    try:
        p = subprocess.run(
            ["python3-vt", "-c",
             "import json,sys,jsonschema;jsonschema.validate(json.load(open(sys.argv[1])),json.load(open(sys.argv[2])))",
             path, os.path.join(VERIF, "vlib", "EVIDENCE.schema.json")],
            stdout=subprocess.PIPE, stderr=subprocess.STDOUT, text=True, timeout=60)
        if p.returncode != 0:
            print("evidence does not validate:\n" + p.stdout[-2000:], file=sys.stderr)
            return False
    except FileNotFoundError:
        pass
    return True


def main(argv=None):
    ap = argparse.ArgumentParser()
    ap.add_argument("pid")
    ap.add_argument("--tier", default=os.environ.get("VERIF_TIER", "quick"), choices=["quick", "thorough"])
    ap.add_argument("--replay", default=None)
    a = ap.parse_args(argv)
    seed = int(os.environ.get("VERIF_SEED", "0") or 0)
    repo = build.repo_dir()
    ov = build.build_overlay(repo)
    overlay.install(ov, repo)
    os.environ["VERIF_REPO_EFFECTIVE"] = repo
    if a.replay:
        a.replay = os.path.abspath(a.replay)
    if repo != os.path.abspath(repo):
        raise SystemExit("VERIF_REPO must be an absolute path")
    ctx = Ctx(a.pid, a.tier, seed, repo, ov)
    # The code under test is run from a throw-away working directory: a native writer that resolves a bad or empty
    # name against the current directory (the DTR writer removes its target recursively) must never see /verif or /repo.
    os.chdir(ctx.scratch)
    drift = build.pyx_drift(repo)
    for d in drift:
        print("WARNING pyx-drift %s (cannot be rebuilt without Cython; binaries reflect the generated C in the tree)" % d)
        ctx.assume("pyx-drift: %s differs from the pinned baseline and is not reflected in the rebuilt binaries" % d)
    mod = importlib.import_module("props." + a.pid)
    try:
        if a.replay:
            obj = json.load(open(a.replay))
            ok = mod.replay(ctx, obj["replay"])
            print("replay: %s" % ("reproduced" if not ok else "not reproduced"))
            return 1 if not ok else 0
        level, coverage = mod.run(ctx)
    finally:
        import shutil
        shutil.rmtree(ctx.scratch, ignore_errors=True)
    valid = write_evidence(ctx, level, coverage)
    print("%s tier=%s seed=%d wall=%.1fs violations=%d known=%d  %s" % (
        a.pid, a.tier, seed, time.time() - ctx.t0, ctx.n_violations, ctx.n_known,
        {k: v for k, v in coverage.items() if isinstance(v, (int, float, bool))}))
    if ctx.n_violations:
        print("unlisted violation signatures:")
        for k, v in sorted(ctx._viol_sigs.items()):
            print("  %5d  %s" % (v, k))
        return 1
    if not valid:
        return 2
    return 0


if __name__ == "__main__":
    try:
        rc = main()
    except SystemExit:
        raise
    except BaseException:
        traceback.print_exc()
        rc = 3
    sys.stdout.flush()
    os._exit(rc)
