"""MANIFEST.setup_cmd: pre-build everything the checks need from files on disk (offline)."""
import os
import sys
import time

sys.path.insert(0, os.path.dirname(os.path.dirname(os.path.abspath(__file__))))
from vlib import build

t = time.time()
print("overlay:", build.build_overlay("/repo"))
kdir = os.path.join(os.path.dirname(os.path.abspath(__file__)), "kern")
if os.path.isdir(kdir):
    for f in sorted(os.listdir(kdir)):
        if f.endswith(".cpp"):
            for fl in ("rel",):
                print("kern:", build.build_kernlib(f[:-4], "/repo", fl))
print("setup done in %.1fs" % (time.time() - t))
