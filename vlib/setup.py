"""MANIFEST.setup_cmd: pre-build everything the checks need from files on disk (offline)."""
import os
import sys
import time

sys.path.insert(0, os.path.dirname(os.path.dirname(os.path.abspath(__file__))))
from vlib import build

t = time.time()
print("overlay:", build.build_overlay("/repo"))
kdir = os.path.join(os.path.dirname(os.path.abspath(__file__)), "kern")
for f in sorted(os.listdir(kdir)):
    if f.endswith(".cpp"):
        print("kern:", build.build_kernlib(f[:-4], "/repo", "rel"))
# instrumented flavours used by C08 (green-thread scheduler) and C14 (AddressSanitizer seam)
print("kern mc:", build.build_kernlib("ompseam", "/repo", "mc"))
print("kern asan:", build.build_kernlib("hbseam", "/repo", "asan"))
for m in ("mdtraj._rmsd", "mdtraj.geometry.drid"):
    print("mc module:", build.build_mc_module(m, "/repo"))
print("setup done in %.1fs" % (time.time() - t))
