"""Inject rebuilt extension modules (and optionally an alternative source tree) into imports."""
import importlib.abc
import importlib.machinery
import importlib.util
import os
import sys
import sysconfig


class _Finder(importlib.abc.MetaPathFinder):
    def __init__(self, overlay, repo, extra=None):
        self.extra = extra           # directory searched before the overlay (instrumented single modules)
        self.overlay = overlay
        self.repo = repo
        self.suffix = sysconfig.get_config_var("EXT_SUFFIX")

    def find_spec(self, fullname, path=None, target=None):
        if fullname == "mdtraj":
            init = os.path.join(self.repo, "mdtraj", "__init__.py")
            return importlib.util.spec_from_file_location(
                "mdtraj", init, submodule_search_locations=[os.path.join(self.repo, "mdtraj")])
        if fullname.startswith("mdtraj.") and self.extra:
            so = os.path.join(self.extra, fullname + self.suffix)
            if os.path.exists(so):
                loader = importlib.machinery.ExtensionFileLoader(fullname, so)
                return importlib.util.spec_from_file_location(fullname, so, loader=loader)
        if fullname.startswith("mdtraj."):
            so = os.path.join(self.overlay, fullname + self.suffix)
            if os.path.exists(so):
                loader = importlib.machinery.ExtensionFileLoader(fullname, so)
                return importlib.util.spec_from_file_location(fullname, so, loader=loader)
        return None


def install(overlay, repo="/repo", extra=None):
    if "mdtraj" in sys.modules:
        raise RuntimeError("overlay must be installed before mdtraj is imported")
    for f in list(sys.meta_path):
        if isinstance(f, _Finder):
            sys.meta_path.remove(f)
    sys.meta_path.insert(0, _Finder(overlay, repo, extra))
    os.environ["VERIF_OVERLAY"] = overlay


def install_from_env():
    ov = os.environ.get("VERIF_OVERLAY")
    if ov:
        install(ov, os.environ.get("VERIF_REPO", "/repo"))
