/* schedx runtime: a deterministic green-thread replacement for libgomp + libtsan.

   The kernels are compiled with  -fopenmp -fsanitize=thread  (instrumentation only) and linked against this
   file instead of libgomp/libtsan.  GOMP_parallel creates T ucontext green threads on ONE OS thread; every
   instrumented memory access to a *shared* granule and every barrier is a scheduling point; the schedule is
   a list of (step, thread) preemptions supplied by the driver.  Default policy: the running thread keeps
   running until it blocks or finishes, then the lowest-numbered runnable thread runs.

   Everything is sequentially consistent by construction (one OS thread).  */
#define _GNU_SOURCE
#include <stdint.h>
#include <stdio.h>
#include <stdlib.h>
#include <string.h>
#include <ucontext.h>

#define MAXT 8
#define STACK_SZ (1 << 20)
enum { ST_RUN = 0, ST_BARRIER = 1, ST_DONE = 2 };

typedef struct { ucontext_t ctx; char *stack; int state; } gthread_t;
static gthread_t th[MAXT];
static ucontext_t main_ctx;
static int cur = -1, T = 2, in_parallel = 0;
static void (*par_fn)(void *);
static void *par_data;

/* schedule (preemptions) */
static int sched_steps[64], sched_tids[64], sched_len = 0, sched_pos = 0;
static long step = 0;
/* trace of scheduling points */
#define TRACE_CAP (1 << 22)
static unsigned char *trace_tid = 0, *trace_enabled = 0;
static long trace_len = 0;
/* access table: granule -> (thread mask, written flag) ; open addressing */
#define HCAP (1 << 20)
static uint64_t *h_key = 0; static unsigned char *h_mask = 0, *h_wr = 0;
/* shared set (sorted granules) */
static uint64_t *shared = 0; static long n_shared = 0; static int all_points = 0;
static int single_seen[MAXT], single_claimed = 0;
static int pending_loop = 0; static long pl_start, pl_end, pl_incr, pl_chunk;
static int deadlock = 0, n_regions = 0, new_shared = 0, overflow = 0;

static void tables_init(void) {
    if (!h_key) {
        h_key = (uint64_t *) calloc(HCAP, 8); h_mask = (unsigned char *) calloc(HCAP, 1); h_wr = (unsigned char *) calloc(HCAP, 1);
        trace_tid = (unsigned char *) malloc(TRACE_CAP); trace_enabled = (unsigned char *) malloc(TRACE_CAP);
    }
}

static int is_shared(uint64_t g) {
    if (all_points) return 1;
    long lo = 0, hi = n_shared - 1;
    while (lo <= hi) { long m = (lo + hi) / 2; if (shared[m] == g) return 1; if (shared[m] < g) lo = m + 1; else hi = m - 1; }
    return 0;
}

static void record(uint64_t g, int is_write) {
    uint64_t k = g * 0x9E3779B97F4A7C15ull; long i = (long) (k >> 44) & (HCAP - 1); int probes = 0;
    while (h_key[i] != 0 && h_key[i] != g + 1) { i = (i + 1) & (HCAP - 1); if (++probes > HCAP - 2) { overflow = 1; return; } }
    h_key[i] = g + 1; h_mask[i] |= (unsigned char) (1 << cur); if (is_write) h_wr[i] |= (unsigned char) (1 << cur);
}

static unsigned enabled_mask(void) { unsigned m = 0; for (int i = 0; i < T; i++) if (th[i].state == ST_RUN) m |= 1u << i; return m; }

static void switch_to(int t) { int prev = cur; cur = t; swapcontext(&th[prev].ctx, &th[t].ctx); }

static void release_barrier_if_complete(void) {
    int waiting = 0, live = 0;
    for (int i = 0; i < T; i++) { if (th[i].state != ST_DONE) live++; if (th[i].state == ST_BARRIER) waiting++; }
    if (live > 0 && waiting == live) for (int i = 0; i < T; i++) if (th[i].state == ST_BARRIER) th[i].state = ST_RUN;
}

/* pick the next thread when the current one cannot continue; never returns to a DONE thread */
static void schedule_next(int from_done) {
    release_barrier_if_complete();
    int nxt = -1, nrun = 0;
    for (int i = T - 1; i >= 0; i--) if (th[i].state == ST_RUN) { nxt = i; nrun++; }
    if (nrun >= 2) {
        /* a free choice (no preemption): which runnable thread continues.  Recorded as a step with tid 255 so
           that the driver can enumerate the alternatives at no cost. */
        if (step < TRACE_CAP) { trace_tid[step] = 255; trace_enabled[step] = (unsigned char) enabled_mask(); trace_len = step + 1; }
        long s = step++;
        if (sched_pos < sched_len && sched_steps[sched_pos] == s) {
            int t = sched_tids[sched_pos++];
            if (t >= 0 && t < T && th[t].state == ST_RUN) nxt = t;
        }
    }
    if (nxt < 0) {
        int live = 0; for (int i = 0; i < T; i++) if (th[i].state != ST_DONE) live++;
        if (live) deadlock = 1;                     /* threads wait at a barrier that a finished thread never reaches */
        int prev = cur; cur = -1;
        if (from_done) setcontext(&main_ctx); else swapcontext(&th[prev].ctx, &main_ctx);
        return;
    }
    if (nxt == cur) return;
    if (from_done) { cur = nxt; setcontext(&th[nxt].ctx); }
    switch_to(nxt);
}

static void sched_point(void *addr, int is_write, int is_barrier) {
    if (!in_parallel || cur < 0) return;
    if (!is_barrier) {
        uint64_t g = ((uint64_t) (uintptr_t) addr) >> 3;
        record(g, is_write);
        if (!is_shared(g)) return;
    }
    if (step < TRACE_CAP) { trace_tid[step] = (unsigned char) cur; trace_enabled[step] = (unsigned char) enabled_mask(); trace_len = step + 1; }
    long s = step++;
    if (sched_pos < sched_len && sched_steps[sched_pos] == s) {
        int t = sched_tids[sched_pos++];
        if (t != cur && t >= 0 && t < T && th[t].state == ST_RUN) switch_to(t);
    }
}

static void thread_main(int id) {
    par_fn(par_data);
    th[id].state = ST_DONE;
    schedule_next(1);
}

/* ---------------------------------------------------------------- libgomp entry points */
static void reset_loops(void);
void GOMP_parallel(void (*fn)(void *), void *data, unsigned num_threads, unsigned flags) {
    (void) flags; (void) num_threads;
    if (in_parallel) { fn(data); return; }       /* nested region: serialised */
    tables_init();
    n_regions++;
    par_fn = fn; par_data = data; in_parallel = 1;
    memset(single_seen, 0, sizeof single_seen); single_claimed = 0;
    reset_loops();
    for (int i = 0; i < T; i++) {
        if (!th[i].stack) th[i].stack = (char *) malloc(STACK_SZ);
        getcontext(&th[i].ctx);
        th[i].ctx.uc_stack.ss_sp = th[i].stack; th[i].ctx.uc_stack.ss_size = STACK_SZ; th[i].ctx.uc_link = &main_ctx;
        th[i].state = ST_RUN;
        makecontext(&th[i].ctx, (void (*)(void)) thread_main, 1, i);
    }
    cur = 0;
    swapcontext(&main_ctx, &th[0].ctx);
    cur = -1; in_parallel = 0;
}
void GOMP_barrier(void) {
    if (!in_parallel || cur < 0) return;
    sched_point(0, 0, 1);
    th[cur].state = ST_BARRIER;
    release_barrier_if_complete();
    if (th[cur].state == ST_RUN) return;
    schedule_next(0);
}
/* #pragma omp single: the first thread to reach the k-th single construct executes it */
int GOMP_single_start(void) {
    if (!in_parallel || cur < 0) return 1;
    sched_point(0, 0, 1);
    int k = ++single_seen[cur];
    if (k > single_claimed) { single_claimed = k; return 1; }
    return 0;
}
/* #pragma omp for schedule(dynamic|guided|runtime): a shared chunk counter per loop construct; taking the next chunk is a
   scheduling point, so the explorer also enumerates which thread gets which chunk.  The k-th loop construct a thread
   enters is work-share k; the first thread to arrive initialises it. */
#define MAXLOOPS 64
static struct { long next, end, incr, chunk; int init; } loops[MAXLOOPS];
static int loop_seen[MAXT];
static int loop_take(long *istart, long *iend) {
    int k = loop_seen[cur] % MAXLOOPS;
    sched_point(0, 0, 1);
    long n = loops[k].next, e = loops[k].end, inc = loops[k].incr;
    if (inc > 0 ? n >= e : n <= e) return 0;
    long stop = n + loops[k].chunk * inc;
    if (inc > 0 ? stop > e : stop < e) stop = e;
    loops[k].next = stop; *istart = n; *iend = stop;
    return 1;
}
static int loop_start(long start, long end, long incr, long chunk, long *istart, long *iend) {
    if (!in_parallel || cur < 0) { *istart = start; *iend = end; return incr > 0 ? start < end : start > end; }
    int k = ++loop_seen[cur] % MAXLOOPS;
    sched_point(0, 0, 1);
    if (loops[k].init != loop_seen[cur]) {
        loops[k].next = start; loops[k].end = end; loops[k].incr = incr; loops[k].chunk = chunk > 0 ? chunk : 1; loops[k].init = loop_seen[cur];
    }
    return loop_take(istart, iend);
}
int GOMP_loop_dynamic_start(long s, long e, long i, long c, long *a, long *b) { return loop_start(s, e, i, c, a, b); }
int GOMP_loop_nonmonotonic_dynamic_start(long s, long e, long i, long c, long *a, long *b) { return loop_start(s, e, i, c, a, b); }
int GOMP_loop_guided_start(long s, long e, long i, long c, long *a, long *b) { return loop_start(s, e, i, c, a, b); }
int GOMP_loop_nonmonotonic_guided_start(long s, long e, long i, long c, long *a, long *b) { return loop_start(s, e, i, c, a, b); }
int GOMP_loop_runtime_start(long s, long e, long i, long *a, long *b) { return loop_start(s, e, i, 1, a, b); }
int GOMP_loop_nonmonotonic_runtime_start(long s, long e, long i, long *a, long *b) { return loop_start(s, e, i, 1, a, b); }
int GOMP_loop_maybe_nonmonotonic_runtime_start(long s, long e, long i, long *a, long *b) { return loop_start(s, e, i, 1, a, b); }
static int loop_next(long *a, long *b) { if (!in_parallel || cur < 0) return 0; return loop_take(a, b); }
int GOMP_loop_dynamic_next(long *a, long *b) { return loop_next(a, b); }
int GOMP_loop_nonmonotonic_dynamic_next(long *a, long *b) { return loop_next(a, b); }
int GOMP_loop_guided_next(long *a, long *b) { return loop_next(a, b); }
int GOMP_loop_nonmonotonic_guided_next(long *a, long *b) { return loop_next(a, b); }
int GOMP_loop_runtime_next(long *a, long *b) { return loop_next(a, b); }
int GOMP_loop_nonmonotonic_runtime_next(long *a, long *b) { return loop_next(a, b); }
int GOMP_loop_maybe_nonmonotonic_runtime_next(long *a, long *b) { return loop_next(a, b); }
void GOMP_loop_end(void) { GOMP_barrier(); }
void GOMP_loop_end_nowait(void) {}
/* combined parallel + loop: the work-share exists before the threads start; they only call *_next */
static void parallel_loop(void (*fn)(void *), void *data, long start, long end, long incr, long chunk) {
    if (in_parallel) { fn(data); return; }
    pending_loop = 1; pl_start = start; pl_end = end; pl_incr = incr; pl_chunk = chunk > 0 ? chunk : 1;
    GOMP_parallel(fn, data, 0, 0);
}
void GOMP_parallel_loop_dynamic(void (*fn)(void *), void *d, unsigned n, long s, long e, long i, long c, unsigned f) { (void) n; (void) f; parallel_loop(fn, d, s, e, i, c); }
void GOMP_parallel_loop_nonmonotonic_dynamic(void (*fn)(void *), void *d, unsigned n, long s, long e, long i, long c, unsigned f) { (void) n; (void) f; parallel_loop(fn, d, s, e, i, c); }
void GOMP_parallel_loop_guided(void (*fn)(void *), void *d, unsigned n, long s, long e, long i, long c, unsigned f) { (void) n; (void) f; parallel_loop(fn, d, s, e, i, c); }
void GOMP_parallel_loop_nonmonotonic_guided(void (*fn)(void *), void *d, unsigned n, long s, long e, long i, long c, unsigned f) { (void) n; (void) f; parallel_loop(fn, d, s, e, i, c); }
void GOMP_parallel_loop_runtime(void (*fn)(void *), void *d, unsigned n, long s, long e, long i, unsigned f) { (void) n; (void) f; parallel_loop(fn, d, s, e, i, 1); }
void GOMP_parallel_loop_nonmonotonic_runtime(void (*fn)(void *), void *d, unsigned n, long s, long e, long i, unsigned f) { (void) n; (void) f; parallel_loop(fn, d, s, e, i, 1); }
void GOMP_parallel_loop_maybe_nonmonotonic_runtime(void (*fn)(void *), void *d, unsigned n, long s, long e, long i, unsigned f) { (void) n; (void) f; parallel_loop(fn, d, s, e, i, 1); }
static void reset_loops(void) {
    memset(loops, 0, sizeof loops); memset(loop_seen, 0, sizeof loop_seen);
    if (pending_loop) {              /* work-share 1 of a combined parallel-loop construct */
        loops[1].next = pl_start; loops[1].end = pl_end; loops[1].incr = pl_incr; loops[1].chunk = pl_chunk; loops[1].init = 1;
        for (int i = 0; i < MAXT; i++) loop_seen[i] = 1;
        pending_loop = 0;
    }
}
int omp_get_thread_num(void) { return (in_parallel && cur >= 0) ? cur : 0; }
int omp_get_num_threads(void) { return in_parallel ? T : 1; }
int omp_get_max_threads(void) { return T; }
int omp_get_num_procs(void) { return T; }
int omp_in_parallel(void) { return in_parallel; }
void omp_set_num_threads(int n) { (void) n; }

/* ---------------------------------------------------------------- TSan instrumentation entry points */
void __tsan_init(void) {}
void __tsan_func_entry(void *pc) { (void) pc; }
void __tsan_func_exit(void) {}
#define RD(n) void __tsan_read##n(void *a) { sched_point(a, 0, 0); } void __tsan_unaligned_read##n(void *a) { sched_point(a, 0, 0); }
#define WR(n) void __tsan_write##n(void *a) { sched_point(a, 1, 0); } void __tsan_unaligned_write##n(void *a) { sched_point(a, 1, 0); }
RD(1) RD(2) RD(4) RD(8) RD(16) WR(1) WR(2) WR(4) WR(8) WR(16)
void __tsan_read_range(void *a, unsigned long n) { for (unsigned long o = 0; o < n; o += 8) sched_point((char *) a + o, 0, 0); }
void __tsan_write_range(void *a, unsigned long n) { for (unsigned long o = 0; o < n; o += 8) sched_point((char *) a + o, 1, 0); }
void __tsan_vptr_update(void **a, void *v) { (void) v; sched_point(a, 1, 0); }
void __tsan_vptr_read(void **a) { sched_point(a, 0, 0); }
/* atomics: plain operations (single OS thread) preceded by a scheduling point */
int __tsan_atomic32_fetch_add(volatile int *a, int v, int mo) { (void) mo; sched_point((void *) a, 1, 0); int o = *a; *a = o + v; return o; }
int __tsan_atomic32_fetch_sub(volatile int *a, int v, int mo) { (void) mo; sched_point((void *) a, 1, 0); int o = *a; *a = o - v; return o; }
long __tsan_atomic64_fetch_add(volatile long *a, long v, int mo) { (void) mo; sched_point((void *) a, 1, 0); long o = *a; *a = o + v; return o; }
long __tsan_atomic64_fetch_sub(volatile long *a, long v, int mo) { (void) mo; sched_point((void *) a, 1, 0); long o = *a; *a = o - v; return o; }
unsigned char __tsan_atomic8_load(const volatile unsigned char *a, int mo) { (void) mo; sched_point((void *) a, 0, 0); return *a; }
int __tsan_atomic32_load(const volatile int *a, int mo) { (void) mo; sched_point((void *) a, 0, 0); return *a; }
long __tsan_atomic64_load(const volatile long *a, int mo) { (void) mo; sched_point((void *) a, 0, 0); return *a; }
void __tsan_atomic8_store(volatile unsigned char *a, unsigned char v, int mo) { (void) mo; sched_point((void *) a, 1, 0); *a = v; }
void __tsan_atomic32_store(volatile int *a, int v, int mo) { (void) mo; sched_point((void *) a, 1, 0); *a = v; }
void __tsan_atomic64_store(volatile long *a, long v, int mo) { (void) mo; sched_point((void *) a, 1, 0); *a = v; }
void __tsan_atomic_thread_fence(int mo) { (void) mo; }
void __tsan_atomic_signal_fence(int mo) { (void) mo; }

/* ---------------------------------------------------------------- driver API (ctypes) */
void schedx_begin(int nthreads, int n, const int *steps, const int *tids, int all) {
    tables_init();
    T = nthreads > MAXT ? MAXT : nthreads; if (T < 1) T = 1;
    sched_len = n > 64 ? 64 : n; for (int i = 0; i < sched_len; i++) { sched_steps[i] = steps[i]; sched_tids[i] = tids[i]; }
    sched_pos = 0; step = 0; trace_len = 0; deadlock = 0; n_regions = 0; all_points = all; overflow = 0;
    memset(h_key, 0, (size_t) HCAP * 8); memset(h_mask, 0, HCAP); memset(h_wr, 0, HCAP);
}
void schedx_set_shared(const uint64_t *g, long n) {
    free(shared); shared = (uint64_t *) malloc((size_t) (n > 0 ? n : 1) * 8); memcpy(shared, g, (size_t) n * 8); n_shared = n;
}
long schedx_trace_len(void) { return trace_len; }
long schedx_steps(void) { return step; }
void schedx_trace(unsigned char *tid, unsigned char *en, long n) { memcpy(tid, trace_tid, (size_t) n); memcpy(en, trace_enabled, (size_t) n); }
int schedx_deadlock(void) { return deadlock; }
int schedx_regions(void) { return n_regions; }
int schedx_overflow(void) { return overflow; }
int schedx_preemptions_taken(void) { return sched_pos; }
/* granules touched by >= 2 threads with at least one writer (conflicting accesses) */
long schedx_conflicts(uint64_t *out, long cap) {
    long n = 0;
    for (long i = 0; i < HCAP; i++) if (h_key[i]) {
        unsigned m = h_mask[i];
        if ((m & (m - 1)) && h_wr[i]) { if (n < cap) out[n] = h_key[i] - 1; n++; }
    }
    return n;
}
