"""Driver of the schedx runtime (vlib/sched/sched.c): iterative preemption-bounded exploration of the schedules
of one kernel call.  A schedule is a list of (step, thread): at scheduling point number `step` control is given to
`thread`.  Steps recorded with tid 255 are free choices (the running thread blocked or finished and more than one
thread can continue): alternatives there cost no preemption."""
import ctypes

import numpy as np


class MC:
    def __init__(self, so_path):
        self.lib = ctypes.CDLL(so_path)
        L = self.lib
        L.schedx_begin.argtypes = [ctypes.c_int, ctypes.c_int, ctypes.c_void_p, ctypes.c_void_p, ctypes.c_int]
        L.schedx_set_shared.argtypes = [ctypes.c_void_p, ctypes.c_long]
        L.schedx_trace_len.restype = ctypes.c_long
        L.schedx_steps.restype = ctypes.c_long
        L.schedx_trace.argtypes = [ctypes.c_void_p, ctypes.c_void_p, ctypes.c_long]
        L.schedx_conflicts.restype = ctypes.c_long
        L.schedx_conflicts.argtypes = [ctypes.c_void_p, ctypes.c_long]
        self.shared = np.zeros(0, np.uint64)

    def set_shared(self, granules):
        self.shared = np.array(sorted(granules), dtype=np.uint64)
        self.lib.schedx_set_shared(self.shared.ctypes.data, len(self.shared))

    def run(self, nthreads, schedule, call, all_points=False):
        steps = np.array([s for s, _t in schedule], dtype=np.int32)
        tids = np.array([t for _s, t in schedule], dtype=np.int32)
        self.lib.schedx_begin(nthreads, len(schedule), steps.ctypes.data, tids.ctypes.data, int(all_points))
        out = call(self.lib)
        n = self.lib.schedx_trace_len()
        tid = np.zeros(n, np.uint8)
        en = np.zeros(n, np.uint8)
        if n:
            self.lib.schedx_trace(tid.ctypes.data, en.ctypes.data, n)
        cap = 1 << 16
        buf = np.zeros(cap, np.uint64)
        nc = self.lib.schedx_conflicts(buf.ctypes.data, cap)
        if nc > cap:
            raise RuntimeError("conflict table overflow")
        return dict(out=out, tid=tid, enabled=en, steps=self.lib.schedx_steps(), deadlock=bool(self.lib.schedx_deadlock()),
                    regions=self.lib.schedx_regions(), conflicts=set(buf[:nc].tolist()),
                    taken=self.lib.schedx_preemptions_taken(), overflow=bool(self.lib.schedx_overflow()))


def explore(mc, nthreads, call, bound, judge, max_exec=None):
    """Explore every schedule with at most `bound` preemptions.  judge(result) -> None | str.
    Returns stats dict and list of (schedule, message) failures (first few)."""
    # ---- fix the set of conflicting granules (accesses by >= 2 threads, one of them a write)
    shared = set()
    restarts = 0
    while True:
        mc.set_shared(shared)
        stats = dict(executions=0, bound=bound, points=0, free_choices=0, distinct_outputs=set(), restarts=restarts,
                     capped=False)
        fails = []
        grown = False
        frontier = [((), 0)]          # (schedule, preemptions used)
        seen_scheds = set()
        while frontier and not grown:
            nxt = []
            for sched, used in frontier:
                if sched in seen_scheds:
                    continue
                seen_scheds.add(sched)
                r = mc.run(nthreads, list(sched), call)
                stats["executions"] += 1
                if r["overflow"]:
                    raise RuntimeError("access table overflow")
                new = r["conflicts"] - shared
                if new:
                    shared |= new
                    grown = True
                    break
                if not sched:
                    stats["points"] = int((r["tid"] != 255).sum())
                    stats["free_choices"] = int((r["tid"] == 255).sum())
                msg = "deadlock at a barrier" if r["deadlock"] else judge(r)
                stats["distinct_outputs"].add(r["out"] if isinstance(r["out"], bytes) else repr(r["out"]))
                if msg and len(fails) < 5:
                    fails.append((list(sched), msg))
                if r["taken"] < len(sched):
                    continue     # the last entry could not be applied (thread not runnable there): already covered
                start = sched[-1][0] + 1 if sched else 0
                for i in range(start, len(r["tid"])):
                    free = r["tid"][i] == 255
                    cost = used + (0 if free else 1)
                    if cost > bound:
                        continue
                    for alt in range(nthreads):
                        if not (r["enabled"][i] >> alt) & 1:
                            continue
                        if not free and alt == r["tid"][i]:
                            continue
                        if free and alt == _default_choice(r["enabled"][i]):
                            continue
                        nxt.append((sched + ((i, alt),), cost))
                if max_exec and stats["executions"] >= max_exec:
                    stats["capped"] = True
                    nxt = []
                    frontier = []
                    break
            frontier = nxt
        if grown:
            restarts += 1
            continue
        stats["distinct_outputs"] = len(stats["distinct_outputs"])
        stats["conflicting_granules"] = len(shared)
        return stats, fails


def _default_choice(mask):
    for i in range(8):
        if (mask >> i) & 1:
            return i
    return -1
