"""Schedule exploration of the prange loops of a Cython extension module (C08 layer b2).

Runs in a fresh interpreter: the module (mdtraj._rmsd or mdtraj.geometry.drid) is built from the generated C++ in
the tree with TSan instrumentation, linked against the green-thread scheduler, and imported IN PLACE of the normal
build; the public mdtraj API is then called under every schedule with at most `bound` preemptions at conflicting
accesses.  Usage: mcmod_run.py <module> <repo> <overlay> <bound> <seed>  -> JSON on the last stdout line.
"""
import json
import os
import sys
import warnings

VERIF = os.path.dirname(os.path.dirname(os.path.dirname(os.path.abspath(__file__))))
sys.path.insert(0, VERIF)
warnings.simplefilter("ignore")

import numpy as np  # noqa: E402

from vlib import build, overlay  # noqa: E402
from vlib.sched import driver  # noqa: E402


def main():
    mod, repo, ov, bound, seed = sys.argv[1], sys.argv[2], sys.argv[3], int(sys.argv[4]), int(sys.argv[5])
    mcdir = build.build_mc_module(mod, repo)
    overlay.install(ov, repo, extra=mcdir)
    import importlib
    import mdtraj as md
    M = importlib.import_module(mod)
    assert mcdir in M.__file__, M.__file__
    mc = driver.MC(M.__file__)
    rng = np.random.RandomState(5 + seed)

    def top(n):
        t = md.Topology()
        ch = t.add_chain()
        for _ in range(n):
            r = t.add_residue("ALA", ch)
            t.add_atom("CA", md.element.carbon, r)
        return t

    calls = {}
    sizes = ((3, 4),) if bound <= 1 else ((3, 4), (4, 5))
    if mod == "mdtraj._rmsd":
        for (nf, na) in sizes:
            x = rng.rand(nf, na, 3).astype(np.float32)
            tp = top(na)
            calls["rmsd(parallel) %dx%d" % (nf, na)] = lambda lib, x=x, tp=tp: md.rmsd(
                md.Trajectory(x.copy(), tp), md.Trajectory(x[:1].copy() + 0.1, tp), 0, parallel=True).tobytes()
            calls["rmsd(atom_indices) %dx%d" % (nf, na)] = lambda lib, x=x, tp=tp: md.rmsd(
                md.Trajectory(x.copy(), tp), md.Trajectory(x[:1].copy() + 0.1, tp), 0, atom_indices=np.arange(3), parallel=True).tobytes()
            calls["superpose(parallel) %dx%d" % (nf, na)] = lambda lib, x=x, tp=tp: md.Trajectory(x.copy(), tp).superpose(
                md.Trajectory(x[:1].copy() + 0.1, tp), 0, parallel=True).xyz.tobytes()
            calls["center_coordinates %dx%d" % (nf, na)] = lambda lib, x=x, tp=tp: (lambda t: t.xyz.tobytes() + np.asarray(getattr(t, "_rmsd_traces", 0.0)).tobytes())(
                md.Trajectory(x.copy(), tp).center_coordinates())
            calls["rmsf(parallel) %dx%d" % (nf, na)] = lambda lib, x=x, tp=tp: md.rmsf(
                md.Trajectory(x.copy(), tp), md.Trajectory(x[:1].copy() + 0.1, tp), 0, parallel=True).tobytes()
    else:
        for (nf, na) in sizes:
            x = rng.rand(nf, na, 3).astype(np.float32)
            tp = top(na)
            calls["compute_drid %dx%d" % (nf, na)] = lambda lib, x=x, tp=tp: md.compute_drid(md.Trajectory(x.copy(), tp)).tobytes()
            calls["compute_drid(atom_indices) %dx%d" % (nf, na)] = lambda lib, x=x, tp=tp: md.compute_drid(
                md.Trajectory(x.copy(), tp), atom_indices=np.arange(3)).tobytes()
    out = []
    for name, call in calls.items():
        for T in ((2,) if bound <= 1 and mod == "mdtraj._rmsd" else (2, 3)):
            ref = mc.run(1, [], call)
            if ref["regions"] == 0:
                out.append({"call": name, "T": T, "error": "no parallel region was entered (instrumented module not in use?)"})
                continue
            b = bound if (T == 2 and "4x5" not in name) else max(1, bound - 1)
            stats, fails = driver.explore(mc, T, call, b, lambda r: None if r["out"] == ref["out"] else "output differs from the 1-thread result")
            rec = {"call": name, "T": T, "bound": b, "executions": stats["executions"], "scheduling_points": stats["points"],
                   "free_choices": stats["free_choices"], "conflicting_granules": stats["conflicting_granules"],
                   "distinct_outputs": stats["distinct_outputs"], "parallel_regions": ref["regions"], "fails": []}
            for sched, msg in fails:
                a = mc.run(T, sched, call)["out"]
                bb = mc.run(T, sched, call)["out"]
                rec["fails"].append({"schedule": [[int(s), int(t)] for s, t in sched], "msg": msg, "replay_deterministic": a == bb})
            out.append(rec)
    print(json.dumps({"module": mod, "results": out}))


if __name__ == "__main__":
    main()
