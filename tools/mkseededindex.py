#!/usr/bin/env python3
"""Regenerate /verif/seeded/INDEX.md from seeded/*/meta.json."""
import json, os
root = "/verif/seeded"
rows = []
for d in sorted(os.listdir(root)):
    m = os.path.join(root, d, "meta.json")
    if not os.path.exists(m):
        continue
    j = json.load(open(m))
    notes = open(os.path.join(root, d, "notes.md")).read().strip().splitlines()
    title = next((l.strip("# ").strip() for l in notes if l.strip()), "")[:110]
    rows.append("| %s | %s | %s | %s | %s | %s |" % (
        d, j["property_broken"], ", ".join(j["files_changed"])[:70], title,
        ("yes" if j["detected"] else "**NO**") + (" (after strengthening: %s)" % j["check_strengthened_by"][:160] if j.get("first_run_missed_it") else ""),
        "; ".join(j["violation_signatures"][:2])[:160]))
with open(os.path.join(root, "INDEX.md"), "w") as f:
    f.write("# Seeded property-breaking changes (independent sub-agents; each passes the 907-test baseline)\n\n"
            "Produced by fresh sub-agents that saw only the property text and a scratch worktree. Each directory holds patch.diff, demo.py "
            "(fails with the patch, passes without), notes.md (the agent's description of what the change needs to manifest) and "
            "meta.json (what was run and the results). None of these is ever applied to /repo.\n\n"
            "| id | property | files | change | detected by ./check | first signatures |\n|---|---|---|---|---|---|\n")
    f.write("\n".join(rows) + "\n")
print(len(rows), "seeded changes indexed")
