#!/bin/bash
# verify_seeded.sh <PROP> <patch.diff> <demo.py> [check tier]
# Confirms a seeded change: demo passes on pristine, fails with the patch; repo baseline still passes;
# then runs the property's check against the patched tree.  Cleans the scratch worktree afterwards.
P=$1; PATCH=$(readlink -f $2); DEMO=$(readlink -f $3); TIER=${4:-quick}
n=vs_$P_$$; d=/tmp/wt_$n
/verif/tools/mkworktree.sh $n > /dev/null || exit 9
cd $d
echo "== demo on pristine"; timeout 600 /venv/bin/python $DEMO > /tmp/$n.demo0 2>&1; r0=$?; echo "exit $r0"
git apply $PATCH || { echo "PATCH DOES NOT APPLY"; git -C /repo worktree remove --force $d; exit 8; }
if git diff --name-only | grep -qE '\.(c|cpp|cxx|h|hpp)$'; then /venv/bin/python /tmp/wt_${n}_tools/rebuild_inplace.py $d > /dev/null; fi
echo "== demo with patch"; timeout 600 /venv/bin/python $DEMO > /tmp/$n.demo1 2>&1; r1=$?; echo "exit $r1"; tail -3 /tmp/$n.demo1
if [ -n "$BASELINE_FROM" ] && grep -q "missing: 0" $BASELINE_FROM; then echo "== baseline (same patch, taken from the earlier run $BASELINE_FROM)"; grep "stable_pass" $BASELINE_FROM | tail -1
else echo "== baseline"; timeout 2400 python3 /verif/tools/baseline.py $d 2>&1 | tail -4; fi
echo "== check $P ($TIER) against patched tree"
cd /verif; VERIF_REPO=$d timeout 3000 ./check $P --tier $TIER > /tmp/$n.check 2>&1; rc=$?; echo "check exit $rc"; grep -c '^VIOLATION' /tmp/$n.check; grep -A2 '^VIOLATION' /tmp/$n.check | head -12; sed -n '/unlisted violation/,$p' /tmp/$n.check | head -20
git -C /repo worktree remove --force $d; rm -rf /tmp/wt_${n}_tools /tmp/$n.demo0 /tmp/$n.demo1
echo "SUMMARY prop=$P demo_pristine=$r0 demo_patched=$r1 check_exit=$rc"
