#!/usr/bin/env python3
"""store_benign.py: copy behaviour-preserving changes (/tmp/wt_{r,u}Cxx_out/rK.diff + notes) and the outcome of
tools/verify_benign.sh (/tmp/benlogs/<P>_<label>K*.log) into /verif/benign/<Cxx>-<label>K/ ; then rebuild benign/INDEX.md
from everything stored (label r = first round, u = second round)."""
import glob, json, os, re, shutil
for diff in sorted(glob.glob("/tmp/wt_[ru]C??_out/r?.diff")):
    lab, P = re.search(r"wt_([ru])(C\d\d)_out", diff).groups()
    k = os.path.basename(diff)[1]
    if not os.path.getsize(diff):
        continue
    logs = sorted(glob.glob("/tmp/benlogs/%s_%s%s*.log" % (P, lab, k)))
    if not logs:
        continue
    m = re.search(r"SUMMARY benign=\S+ alarms:(.*)", open(logs[0]).read())
    if not m:
        continue
    reruns = []
    for lg in logs[1:]:
        mm = re.search(r"SUMMARY benign=\S+ alarms:(.*)", open(lg).read())
        if mm:
            reruns.append(mm.group(1).strip())
    d = "/verif/benign/%s-%s%s" % (P, lab, k)
    os.makedirs(d, exist_ok=True)
    shutil.copy(diff, os.path.join(d, "patch.diff"))
    nf = diff.replace(".diff", "_notes.md")
    if os.path.exists(nf):
        shutil.copy(nf, os.path.join(d, "notes.md"))
    files = re.findall(r"^\+\+\+ b/(\S+)", open(diff).read(), re.M)
    meta = {"anchored_in_property": P, "files_changed": files,
            "checked_with": "tools/verify_benign.sh: fresh worktree of /repo HEAD, patch applied, all 20 quick checks run against it",
            "alarms_first_run": m.group(1).split(), "reruns_of_the_alarming_checks": reruns}
    json.dump(meta, open(os.path.join(d, "meta.json"), "w"), indent=1)
rows = []
for d in sorted(glob.glob("/verif/benign/C??-[ru]?")):
    meta = json.load(open(os.path.join(d, "meta.json")))
    notes = ""
    nf = os.path.join(d, "notes.md")
    if os.path.exists(nf):
        for ln in open(nf):
            if ln.strip():
                notes = re.sub(r"^#+\s*", "", ln.strip())[:150]
                break
    rows.append((os.path.basename(d), ", ".join(meta["files_changed"])[:70], notes, " ".join(meta["alarms_first_run"]) or "none",
                 "; ".join(meta["reruns_of_the_alarming_checks"]) or "-"))
with open("/verif/benign/INDEX.md", "w") as fh:
    fh.write("# Behaviour-preserving changes (wave R) run through all 20 checks\n\nAn alarm here is a false alarm by construction. "
             "`alarms (first run)` lists checks that exited non-zero; `after correction` the outcome of re-running those checks "
             "after the machinery was corrected (see DESIGN.md §9 for what each was): C05 on C01-r1 was a true false alarm (domain-edge margin); "
             "the C08/C03 entries of C05-r1, C07-r1, C13-r1 were check errors (exit 3) from a build-cache race between concurrent runs; "
             "the C19 entries of C04-r1, C09-r1, C19-r1, C20-r1 were NOT false: those worktrees predated repo fix 3b0a26cd and the "
             "strengthened C19 correctly reported the NetCDF one-atom broadcast defect in them.\n\n"
             "| change | files | what | alarms (first run) | after correction |\n|---|---|---|---|---|\n")
    for r in rows:
        fh.write("| %s | %s | %s | %s | %s |\n" % r)
print(len(rows), "stored")
