#!/bin/bash
# mkworktree.sh <name>: scratch git worktree of /repo at HEAD under /tmp/wt_<name>, made runnable:
# the git-ignored generated Cython C files and the compiled modules are copied in, and a rebuild tool is put next to it.
set -e
n=$1; d=/tmp/wt_$n
git -C /repo worktree remove --force $d 2>/dev/null || true
rm -rf $d /tmp/wt_${n}_tools
git -C /repo worktree add -q --detach $d HEAD
cd /repo
for f in $(git ls-files -o -i --exclude-standard | grep -E '\.(c|cpp)$|\.so$'); do mkdir -p $d/$(dirname $f); cp -p $f $d/$f; done
mkdir -p /tmp/wt_${n}_tools; cp /verif/tools/rebuild_inplace.py /tmp/wt_${n}_tools/
# .so files in the worktree must match the current C sources (fix commits changed some): rebuild once
/venv/bin/python /tmp/wt_${n}_tools/rebuild_inplace.py $d > /dev/null
echo $d
