#!/usr/bin/env python3
"""Generate MANIFEST.json from the table below (single source of truth for what is claimed)."""
import json
import os

VERIF = os.path.dirname(os.path.dirname(os.path.abspath(__file__)))

# id -> dict(category, technique, text, note, design_ref, engine)
CHECKS = {}
NOT_YET = {}


def claim(pid, category, engine, technique, text, note, ref):
    CHECKS[pid] = dict(category=category, engine=engine, technique=technique, text=text, note=note, ref=ref)


# properties whose check has been validated by the main session (silent on the unchanged tree, evidence valid)
READY = ["C01", "C02", "C03", "C04", "C05", "C06", "C07", "C08", "C09", "C10", "C11", "C12", "C13", "C14", "C15", "C16", "C17", "C18", "C19", "C20"]


def load_claims():
    """Each props/Cxx.py carries a literal  MANIFEST = {category, engine, technique, text, note, ref}."""
    import ast
    pdir = os.path.join(VERIF, "props")
    for fn in sorted(os.listdir(pdir)):
        if not (fn.startswith("C") and fn.endswith(".py")) or fn[:-3] not in READY:
            continue
        tree = ast.parse(open(os.path.join(pdir, fn)).read())
        for node in tree.body:
            if isinstance(node, ast.Assign) and getattr(node.targets[0], "id", None) == "MANIFEST":
                d = ast.literal_eval(node.value)
                claim(fn[:-3], d["category"], d["engine"], d["technique"], d["text"], d["note"], d["ref"])


ALL = ["C%02d" % i for i in range(1, 21)]


def main():
    load_claims()
    checks = []
    for pid in ALL:
        if pid not in CHECKS:
            continue
        c = CHECKS[pid]
        checks.append({
            "property_id": pid,
            "quick_cmd": "./check %s --tier quick" % pid,
            "thorough_cmd": "./check %s --tier thorough" % pid,
            "evidence_file": "/verif/evidence/%s.json" % pid,
            "replay_cmd_template": "./check %s --replay {path}" % pid,
            "engine": c["engine"],
            "level_claimed": {"category": c["category"], "text": c["text"], "design_ref": c["ref"]},
            "level_note": c["note"],
            "technique": c["technique"],
        })
    na = [{"property_id": p, "reason": NOT_YET.get(p, "check not built yet in this session (designed in DESIGN.md §3; "
                                                     "bounded exhaustive exploration applies)")}
          for p in ALL if p not in CHECKS]
    man = {
        "version": 1,
        "setup_cmd": "/venv/bin/python vlib/setup.py",
        "hooks": {
            "guard": "MDTRAJ_VERIF",
            "enable": "no source hooks: seams are obtained by rebuilding the extension modules from the working tree "
                      "(vlib/build.py), #include-ing kernel sources into harness TUs and interposing libgomp/TSan entry points",
            "baseline_off_cmd": "cd /repo && /venv/bin/python -m pytest -ra -q -p no:cacheprovider --timeout=900 "
                                "--continue-on-collection-errors",
            "source_commits": [],
            "add_only": True,
        },
        "engines": [
            {"name": "histx", "path": "vlib/explore.py", "serves_properties": ["C03", "C04", "C17", "C18", "C19"],
             "kind_free_text": "explicit-state BFS / exhaustive depth-bounded enumeration of operation histories on real "
                               "objects against a Python reference model"},
            {"name": "cfgx", "path": "vlib/runner.py", "serves_properties": ["C01", "C02", "C20"],
             "kind_free_text": "complete cartesian products of small configuration axes, one real execution per cell"},
            {"name": "gridx", "path": "vlib/grids.py",
             "serves_properties": ["C05", "C06", "C07", "C09", "C10", "C11", "C13", "C14", "C16"],
             "kind_free_text": "designed finite input grids enumerated completely against float64 oracles"},
            {"name": "progx", "path": "props/C12.py", "serves_properties": ["C12"],
             "kind_free_text": "exhaustive program enumeration of the selection grammar to a depth vs reference interpreter"},
            {"name": "schedx", "path": "vlib/sched", "serves_properties": ["C08"],
             "kind_free_text": "green-thread scheduler behind GOMP_*/__tsan_* entry points: preemption-bounded exhaustive "
                               "interleaving exploration of the real OpenMP kernels; per-thread frame-history enumeration"},
            {"name": "kernseam", "path": "vlib/kern", "serves_properties": ["C15", "C14", "C13", "C10"],
             "kind_free_text": "harness TUs that #include the repo's kernel sources to drive static functions with "
                               "enumerated inputs"},
        ],
        "checks": checks,
        "not_applicable": na,
        "notes": "All checks rebuild the extension modules from /repo's working tree with gcc (no Cython in the sandbox: "
                 ".pyx edits cannot be compiled; drift is reported as a WARNING and in evidence.assumptions). "
                 "Known findings: /verif/known_findings.json and /verif/known_findings.d/*.json (read-only at run time). Every check runs the "
                 "code under test from a throw-away working directory. Seeded property-breaking changes with the signatures that catch them: "
                 "/verif/seeded (tools/regress_seeded.py re-runs them all); behaviour-preserving changes that must not alarm any check: "
                 "/verif/benign (tools/regress_benign.py).",
    }
    with open(os.path.join(VERIF, "MANIFEST.json"), "w") as f:
        json.dump(man, f, indent=1)
    print("claimed:", [c["property_id"] for c in checks])


if __name__ == "__main__":
    main()
