#!/usr/bin/env python3
"""regress_benign.py [--lanes N] [--all]
Re-run the stored behaviour-preserving changes (/verif/benign/<id>/patch.diff) against the CURRENT checks: none may
alarm.  Per patch the checks of the property it is anchored in plus the checks that exercise the files it touches
(--all: all 20).  Writes benign/REGRESSION.md."""
import concurrent.futures as cf
import glob
import json
import os
import re
import subprocess
import sys
import time

VERIF = os.path.dirname(os.path.dirname(os.path.abspath(__file__)))
ALL = ["C%02d" % i for i in range(1, 21)]


def related(meta):
    out = {meta["anchored_in_property"]}
    for f in meta["files_changed"]:
        if "/formats/" in f:
            out |= {"C01", "C02", "C18", "C19", "C20"}
        if "/geometry/" in f or "/rmsd/" in f:
            out |= {"C08", "C09"}
        if f.endswith(("distance.py", "geometry.cpp", "distancekernels.h")):
            out |= {"C05", "C07", "C10", "C14", "C16"}
        if f.endswith(("topology.py", "selection.py", "element.py")):
            out |= {"C04", "C12", "C02"}
        if f.endswith("core/trajectory.py"):
            out |= {"C03", "C17", "C01", "C02", "C06", "C11"}
        if f.endswith("unitcell.py"):
            out |= {"C17", "C05", "C01"}
        if "sasa" in f:
            out |= {"C13"}
        if "hbond" in f or "dssp" in f:
            out |= {"C14", "C15"}
        if "neighbor" in f:
            out |= {"C10"}
        if "contact" in f or "/rg.py" in f or "drid" in f or "order.py" in f or "thermodynamic" in f:
            out |= {"C16"}
    return sorted(out)


def sh(cmd, **kw):
    return subprocess.run(cmd, shell=isinstance(cmd, str), stdout=subprocess.PIPE, stderr=subprocess.STDOUT, text=True, **kw)


def lane(args):
    k, items, everything = args
    name = "rb%d_%d" % (os.getpid(), k)
    wt = "/tmp/wt_" + name
    if sh([os.path.join(VERIF, "tools/mkworktree.sh"), name]).returncode != 0:
        return [(d, [], "worktree failed") for d in items]
    out = []
    try:
        for d in items:
            meta = json.load(open(os.path.join(d, "meta.json")))
            sh(["git", "-C", wt, "checkout", "--", "."])
            if sh(["git", "-C", wt, "apply", os.path.join(d, "patch.diff")]).returncode != 0:
                out.append((d, [], "PATCH DOES NOT APPLY to the current /repo HEAD"))
                continue
            checks = ALL if everything else related(meta)
            bad = []
            for chk in checks:
                c = sh([os.path.join(VERIF, "check"), chk], env=dict(os.environ, VERIF_REPO=wt), cwd=VERIF, timeout=3600)
                if c.returncode != 0:
                    sigs = re.findall(r"signature: (.*)", c.stdout)[:3]
                    bad.append("%s(exit %d: %s)" % (chk, c.returncode, "; ".join(sigs) or c.stdout.strip().splitlines()[-1][:120]))
            out.append((d, checks, "silent" if not bad else "ALARM " + ", ".join(bad)))
            print("%-10s %-60s %s" % (os.path.basename(d), " ".join(checks), out[-1][2]), flush=True)
    finally:
        sh(["git", "-C", "/repo", "worktree", "remove", "--force", wt])
        sh("rm -rf /tmp/wt_%s_tools" % name)
    return out


def main():
    lanes = int(sys.argv[sys.argv.index("--lanes") + 1]) if "--lanes" in sys.argv else 4
    everything = "--all" in sys.argv
    dirs = sorted(d for d in glob.glob(os.path.join(VERIF, "benign", "C*")) if os.path.exists(os.path.join(d, "patch.diff")))
    res = []
    with cf.ThreadPoolExecutor(lanes) as ex:
        for r in ex.map(lane, [(k, dirs[k::lanes], everything) for k in range(lanes)]):
            res += r
    res.sort()
    bad = [r for r in res if r[2] != "silent"]
    with open(os.path.join(VERIF, "benign", "REGRESSION.md"), "w") as fh:
        fh.write("# Behaviour-preserving changes re-run against the current checks\n\n`tools/regress_benign.py`: each stored patch applied to a "
                 "scratch worktree of /repo HEAD; the checks of the property it is anchored in and of the files it touches are run "
                 "against it (quick tier). %d changes, %d silent, %d alarming.\n\n| change | checks run | result |\n|---|---|---|\n"
                 % (len(res), len(res) - len(bad), len(bad)))
        for d, checks, st in res:
            fh.write("| %s | %s | %s |\n" % (os.path.basename(d), " ".join(checks), st))
    print("TOTAL %d, alarming: %s" % (len(res), [os.path.basename(b[0]) for b in bad]))
    return 1 if bad else 0


if __name__ == "__main__":
    sys.exit(main())
