#!/usr/bin/env python3
"""regress_seeded.py [--lanes N] [--only PREFIX ...]
Re-run every stored seeded change (/verif/seeded/<id>/patch.diff) against the check named in its meta.json, on the
CURRENT checks: the check must exit 1 with a VIOLATION line on the patched tree.  One scratch worktree per lane, patches
applied and reverted in turn (the checks rebuild C/C++ from the tree themselves).  Writes seeded/REGRESSION.md."""
import concurrent.futures as cf
import glob
import json
import os
import re
import subprocess
import sys
import time

VERIF = os.path.dirname(os.path.dirname(os.path.abspath(__file__)))


def sh(cmd, **kw):
    return subprocess.run(cmd, shell=isinstance(cmd, str), stdout=subprocess.PIPE, stderr=subprocess.STDOUT, text=True, **kw)


def lane(args):
    k, items = args
    name = "rg%d_%d" % (os.getpid(), k)
    wt = "/tmp/wt_" + name
    r = sh([os.path.join(VERIF, "tools/mkworktree.sh"), name])
    if r.returncode != 0:
        return [(d, "?", "worktree failed", 0.0) for d in items]
    out = []
    try:
        for d in items:
            meta = json.load(open(os.path.join(d, "meta.json")))
            if meta.get("superseded_by_repo_fix"):
                out.append((d, "-", "superseded by a repo fix (no longer breaks the property): " + meta["superseded_by_repo_fix"][:60], 0.0))
                continue
            chk = re.search(r"\./check (C\d\d)", meta["checked_with"]).group(1)
            sh(["git", "-C", wt, "checkout", "--", "."])
            a = sh(["git", "-C", wt, "apply", os.path.join(d, "patch.diff")])
            if a.returncode != 0:
                out.append((d, chk, "PATCH DOES NOT APPLY to the current /repo HEAD", 0.0))
                continue
            t0 = time.time()
            env = dict(os.environ, VERIF_REPO=wt)
            c = sh([os.path.join(VERIF, "check"), chk], env=env, cwd=VERIF, timeout=3600)
            viol = len(re.findall(r"^VIOLATION property=%s " % chk, c.stdout, re.M))
            status = "detected" if (c.returncode == 1 and viol > 0) else "NOT DETECTED (exit %d, %d VIOLATION lines)" % (c.returncode, viol)
            out.append((d, chk, status, time.time() - t0))
            print("%-28s %s %s %.0fs" % (os.path.basename(d), chk, status, time.time() - t0), flush=True)
    finally:
        sh(["git", "-C", "/repo", "worktree", "remove", "--force", wt])
        sh("rm -rf /tmp/wt_%s_tools" % name)
    return out


def main():
    lanes = int(sys.argv[sys.argv.index("--lanes") + 1]) if "--lanes" in sys.argv else 4
    only = sys.argv[sys.argv.index("--only") + 1:] if "--only" in sys.argv else None
    dirs = sorted(d for d in glob.glob(os.path.join(VERIF, "seeded", "C*")) if os.path.exists(os.path.join(d, "patch.diff")))
    if only:
        dirs = [d for d in dirs if any(os.path.basename(d).startswith(p) for p in only)]
    chunks = [(k, dirs[k::lanes]) for k in range(lanes)]
    res = []
    with cf.ThreadPoolExecutor(lanes) as ex:
        for r in ex.map(lane, chunks):
            res += r
    res.sort()
    bad = [r for r in res if r[2] != "detected" and not r[2].startswith("superseded")]
    if not only:
        with open(os.path.join(VERIF, "seeded", "REGRESSION.md"), "w") as fh:
            fh.write("# Seeded changes re-run against the current checks\n\n`tools/regress_seeded.py`: each stored patch applied to a scratch "
                     "worktree of /repo HEAD, the check named in its meta.json run against it (quick tier).\n\n"
                     "%d changes, %d detected, %d superseded by a repo fix, %d not detected.\n\n| seeded change | check | result |\n|---|---|---|\n"
                     % (len(res), sum(r[2] == "detected" for r in res), sum(r[2].startswith("superseded") for r in res), len(bad)))
            for d, chk, st, _t in res:
                fh.write("| %s | %s | %s |\n" % (os.path.basename(d), chk, st))
    print("TOTAL %d, not detected: %s" % (len(res), [os.path.basename(b[0]) for b in bad]))
    return 1 if bad else 0


if __name__ == "__main__":
    sys.exit(main())
