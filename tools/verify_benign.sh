#!/bin/bash
# verify_benign.sh <name> <patch.diff> [checks...]
# A behaviour-preserving change (refactoring) must NOT alarm any check: fresh worktree of /repo HEAD, apply, rebuild
# C/C++ if touched, repo baseline (must stay missing: 0), then every listed check (default: all 20, quick tier)
# against the patched tree.  Prints one line per check that exits non-zero and a SUMMARY line.
N=$1; PATCH=$(readlink -f $2); shift 2
CHECKS=${@:-C01 C02 C03 C04 C05 C06 C07 C08 C09 C10 C11 C12 C13 C14 C15 C16 C17 C18 C19 C20}
n=vb_${N}_$$; d=/tmp/wt_$n
/verif/tools/mkworktree.sh $n > /dev/null || exit 9
cd $d
git apply $PATCH || { echo "PATCH DOES NOT APPLY"; git -C /repo worktree remove --force $d; rm -rf /tmp/wt_${n}_tools; exit 8; }
if git diff --name-only | grep -qE '\.(c|cpp|cxx|h|hpp|hxx)$'; then /venv/bin/python /tmp/wt_${n}_tools/rebuild_inplace.py $d > /dev/null; fi
if [ -z "$SKIP_BASELINE" ]; then echo "== baseline"; timeout 2400 python3 /verif/tools/baseline.py $d 2>&1 | tail -3; fi
cd /verif
bad=""
for P in $CHECKS; do
  VERIF_REPO=$d timeout 3000 ./check $P > /tmp/$n.$P.check 2>&1; rc=$?
  if [ $rc -ne 0 ]; then bad="$bad $P"; echo "== ALARM $P exit $rc"; grep -A2 '^VIOLATION' /tmp/$n.$P.check | head -9; sed -n '/unlisted violation/,$p' /tmp/$n.$P.check | head -12; tail -3 /tmp/$n.$P.check | cut -c1-300; fi
  grep -h "^WARNING" /tmp/$n.$P.check | sort | uniq -c | head -5
  rm -f /tmp/$n.$P.check
done
git -C /repo worktree remove --force $d; rm -rf /tmp/wt_${n}_tools
echo "SUMMARY benign=$N alarms:${bad:- none}"
