#!/usr/bin/env python3
"""store_seeded.py <PROP> <agentdir> <mK> <verify log> [--missed-first "<what was strengthened>"] [--check <PROP2>]
Copies a confirmed seeded change into /verif/seeded/<PROP>-<mK>/ with meta.json."""
import json, os, re, shutil, sys
prop, adir, mk, log = sys.argv[1:5]
extra = sys.argv[5:]
missed = extra[extra.index("--missed-first") + 1] if "--missed-first" in extra else None
chk = extra[extra.index("--check") + 1] if "--check" in extra else prop
label = extra[extra.index("--label") + 1] if "--label" in extra else mk
d = "/verif/seeded/%s-%s%s" % (prop, label, "" if chk == prop else "-by-" + chk)
os.makedirs(d, exist_ok=True)
shutil.copy(os.path.join(adir, mk + ".diff"), os.path.join(d, "patch.diff"))
shutil.copy(os.path.join(adir, mk + "_demo.py"), os.path.join(d, "demo.py"))
notes = open(os.path.join(adir, mk + "_notes.md")).read()
open(os.path.join(d, "notes.md"), "w").write(notes)
L = open(log).read()
summ = re.search(r"SUMMARY prop=(\S+) demo_pristine=(\d+) demo_patched=(\d+) check_exit=(\d+)", L)
base = re.search(r"stable_pass: (\d+), passing now: (\d+), missing: (\d+)", L)
sigs = re.findall(r"^\s+\d+\s+(\S.*)$", L[L.find("unlisted violation signatures"):], re.M)[:12] if "unlisted violation signatures" in L else \
    sorted(set(re.findall(r"signature: (.*)", L)))[:12]
files = re.findall(r"^\+\+\+ b/(\S+)", open(os.path.join(d, "patch.diff")).read(), re.M)
meta = {
    "property_broken": prop,
    "checked_with": "./check %s (VERIF_REPO=<scratch worktree with the patch>)" % chk,
    "files_changed": files,
    "needs_to_manifest": "see notes.md (written by the independent agent that produced the change)",
    "what_was_run": "tools/verify_seeded.sh %s patch.diff demo.py: fresh worktree of /repo HEAD; demo on pristine tree; git apply; "
                    "rebuild C/C++ if touched; demo with patch; tools/baseline.py (pytest -n 12 vs BASELINE stable_pass); "
                    "the property's quick check against the patched tree; worktree removed" % chk,
    "demo_exit_pristine": int(summ.group(2)), "demo_exit_patched": int(summ.group(3)),
    "baseline_stable_pass": {"expected": int(base.group(1)), "passing": int(base.group(2)), "missing": int(base.group(3))},
    "check_exit_on_patched_tree": int(summ.group(4)), "detected": summ.group(4) == "1",
    "violation_signatures": sigs,
}
if missed:
    meta["first_run_missed_it"] = True
    meta["check_strengthened_by"] = missed
json.dump(meta, open(os.path.join(d, "meta.json"), "w"), indent=1)
print(d, "detected" if meta["detected"] else "NOT DETECTED", sigs[:2])
