#!/venv/bin/python
"""Rebuild mdtraj's compiled extension modules IN PLACE in a source tree (no Cython needed: uses the generated
.c/.cpp next to each .pyx).  Usage: rebuild_inplace.py <tree>      (.pyx/.pxi edits cannot be compiled here)"""
import os, subprocess, sys, sysconfig
from concurrent.futures import ThreadPoolExecutor
import numpy
tree = os.path.abspath(sys.argv[1])
OMP = ["-fopenmp"]; SSE = ["-msse2", "-mssse3"]; OPT = ["-O3", "-funroll-loops", "--std=c++11"]
WARN = ["-Wno-unused-function", "-Wno-unreachable-code", "-Wno-sign-compare", "-w"]
G = OMP + SSE + OPT + WARN
X = "mdtraj/formats/xtc/"
EXT = {
 "mdtraj/formats/xtc": ([X+"src/xdrfile.c", X+"src/xdr_seek.c", X+"src/xdrfile_xtc.c", X+"xtc.c"], [X+"include", X], WARN, "c", []),
 "mdtraj/formats/trr": ([X+"src/xdrfile.c", X+"src/xdr_seek.c", X+"src/xdrfile_trr.c", X+"trr.c"], [X+"include", X], WARN, "c", []),
 "mdtraj/formats/dcd": (["mdtraj/formats/dcd/src/dcdplugin.c", "mdtraj/formats/dcd/dcd.c"], ["mdtraj/formats/dcd/include", "mdtraj/formats/dcd"], WARN, "c", []),
 "mdtraj/formats/dtr": (["mdtraj/formats/dtr/src/dtrplugin.cxx", "mdtraj/formats/dtr/dtr.cpp"], ["mdtraj/formats/dtr/include", "mdtraj/formats/dtr"], WARN + ["-DDESRES_READ_TIMESTEP2=1"], "c++", []),
 "mdtraj/_rmsd": (["mdtraj/rmsd/src/theobald_rmsd.cpp", "mdtraj/rmsd/src/rotation.cpp", "mdtraj/rmsd/src/center.cpp", "mdtraj/rmsd/_rmsd.cpp"], ["mdtraj/rmsd/include"], G, "c++", ["-lgomp"]),
 "mdtraj/_lprmsd": (["mdtraj/rmsd/src/theobald_rmsd.cpp", "mdtraj/rmsd/src/rotation.cpp", "mdtraj/rmsd/src/center.cpp", "mdtraj/rmsd/src/fancy_index.cpp", "mdtraj/rmsd/src/Munkres.cpp", "mdtraj/rmsd/src/euclidean_permutation.cpp", "mdtraj/rmsd/_lprmsd.cpp"], ["mdtraj/rmsd/include"], G, "c++", ["-lgomp"]),
 "mdtraj/geometry/_geometry": (["mdtraj/geometry/src/sasa.cpp", "mdtraj/geometry/src/dssp.cpp", "mdtraj/geometry/src/geometry.cpp", "mdtraj/geometry/src/_geometry.cpp"], ["mdtraj/geometry/include", "mdtraj/geometry/src/kernels"], G, "c++", ["-lgomp"]),
 "mdtraj/geometry/drid": (["mdtraj/geometry/src/dridkernels.cpp", "mdtraj/geometry/src/moments.cpp", "mdtraj/geometry/drid.cpp"], ["mdtraj/geometry/include"], G, "c++", ["-lgomp"]),
 "mdtraj/geometry/neighbors": (["mdtraj/geometry/src/neighbors.cpp", "mdtraj/geometry/neighbors.cpp"], ["mdtraj/geometry/include"], G, "c++", ["-lgomp"]),
 "mdtraj/geometry/neighborlist": (["mdtraj/geometry/src/neighborlist.cpp", "mdtraj/geometry/neighborlist.cpp"], ["mdtraj/geometry/include"], G, "c++", ["-lgomp"]),
}
only = sys.argv[2:]
suffix = sysconfig.get_config_var("EXT_SUFFIX")
pyinc = ["-I" + sysconfig.get_paths()["include"], "-I" + numpy.get_include()]
bdir = os.path.join(tree, ".rebuild_obj"); os.makedirs(bdir, exist_ok=True)
def build(item):
    mod, (srcs, inc, args, lang, libs) = item
    if only and not any(o in mod for o in only): return mod + " (skipped)"
    cc = "g++" if lang == "c++" else "gcc"
    a = [x for x in args if not (lang == "c" and x.startswith("--std"))]
    objs = []
    for s in srcs:
        o = os.path.join(bdir, mod.replace("/", "_") + "__" + s.replace("/", "_") + ".o")
        src = os.path.join(tree, s)
        if not os.path.exists(o) or os.path.getmtime(o) < max(os.path.getmtime(src), max((os.path.getmtime(os.path.join(r, f)) for d in inc + [os.path.dirname(s)] for r, _d, fs in os.walk(os.path.join(tree, d)) for f in fs if f.endswith((".h", ".hpp"))), default=0)):
            subprocess.run([cc, "-c", src, "-o", o, "-O3", "-fPIC", "-DNDEBUG", "-fno-strict-overflow"] + a + ["-I" + os.path.join(tree, d) for d in inc] + pyinc, check=True, cwd=tree)
        objs.append(o)
    out = os.path.join(tree, mod + suffix)
    subprocess.run([cc, "-shared", "-o", out + ".tmp"] + objs + libs + (["-fopenmp"] if "-fopenmp" in args else []), check=True)
    os.replace(out + ".tmp", out)
    return mod
with ThreadPoolExecutor(10) as ex:
    for m in ex.map(build, EXT.items()): print("built", m)
