#!/usr/bin/env python3
"""Run the repository's baseline suite (guard off) on a tree and compare with BASELINE.json's stable_pass list."""
import json, os, subprocess, sys, xml.etree.ElementTree as ET
repo = sys.argv[1] if len(sys.argv) > 1 else "/repo"
extra = sys.argv[2:]
out = "/dev/shm/baseline-%d.xml" % os.getpid()
cmd = ["/venv/bin/python", "-m", "pytest", "-q", "-p", "no:cacheprovider", "--timeout=900",
       "--continue-on-collection-errors", "-n", "12", "--junitxml=" + out] + extra
env = dict(os.environ); env.pop("MDTRAJ_VERIF", None)
p = subprocess.run(cmd, cwd=repo, env=env, stdout=subprocess.PIPE, stderr=subprocess.STDOUT, text=True)
print(p.stdout.strip().splitlines()[-1])
stable = set(json.load(open("/root/.vp/BASELINE.json"))["stable_pass"])
passed = set()
for tc in ET.parse(out).getroot().iter("testcase"):
    name = tc.get("classname") + "::" + tc.get("name")
    if not any(c.tag in ("failure", "error", "skipped") for c in tc):
        passed.add(name)
os.remove(out)
missing = sorted(stable - passed)
print("stable_pass: %d, passing now: %d, missing: %d" % (len(stable), len(stable & passed), len(missing)))
for m in missing[:40]:
    print("  NOT PASSING:", m)
sys.exit(1 if missing else 0)
