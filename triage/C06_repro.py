"""Minimal stand-alone reproductions for the C06 findings (run: /venv/bin/python triage/C06_repro.py)."""
import numpy as np
import mdtraj as md

np.seterr(all="ignore")


def traj(xyz):
    xyz = np.asarray(xyz, np.float32)
    xyz = xyz[None] if xyz.ndim == 2 else xyz
    top = md.Topology()
    ch = top.add_chain()
    for _ in range(xyz.shape[1]):
        top.add_atom("CA", md.element.carbon, top.add_residue("ALA", ch))
    return md.Trajectory(xyz.copy(), top)


def kabsch_rmsd(a, b):
    a = np.asarray(a, float) - np.mean(a, 0)
    b = np.asarray(b, float) - np.mean(b, 0)
    u, s, vt = np.linalg.svd(a.T @ b)
    d = np.sign(np.linalg.det(u) * np.linalg.det(vt))
    r = u @ np.diag([1, 1, d]) @ vt
    return np.sqrt(((a @ r - b) ** 2).sum(1).mean())


rng = np.random.RandomState(0)

# F1 -- md.rmsd of an elongated structure (64-residue alpha-helix CA trace, 0.025 nm noise)
k = np.arange(64.0)
helix = np.stack([0.23 * np.cos(np.deg2rad(100) * k), 0.23 * np.sin(np.deg2rad(100) * k), 0.15 * k], 1).astype(np.float32)
noisy = (helix + rng.normal(0, 0.0144, helix.shape)).astype(np.float32)
c, s = np.cos(1.0), np.sin(1.0)
unit = 1.19e-7 * 2 * ((helix - helix.mean(0)) ** 2).sum() / 64          # eps32 (Ga+Gb)/N, Ga ~ Gb
worst = (0, None)
for trial in range(200):
    q = rng.randn(4)
    q /= np.linalg.norm(q)
    w_, x, y, z = q
    R = np.array([[1 - 2 * (y * y + z * z), 2 * (x * y - z * w_), 2 * (x * z + y * w_)],
                  [2 * (x * y + z * w_), 1 - 2 * (x * x + z * z), 2 * (y * z - x * w_)],
                  [2 * (x * z - y * w_), 2 * (y * z + x * w_), 1 - 2 * (x * x + y * y)]])
    moved = (noisy @ R.T + 1.0).astype(np.float32)
    got, exact = float(md.rmsd(traj(moved), traj(helix))[0]), kabsch_rmsd(moved, helix)
    if abs(got ** 2 - exact ** 2) > worst[0]:
        worst = (abs(got ** 2 - exact ** 2), (got, exact))
print("F1  worst of 200 rigid placements: md.rmsd = %.6f   float64 Kabsch = %.6f   |d rmsd^2| = %.1f x eps32 (Ga+Gb)/N" % (
    worst[1][0], worst[1][1], worst[0] / unit))

# F2a -- superpose when the optimal rotation is by 180 degrees
a = rng.randn(10, 3).astype(np.float32)
for name, R in [("180 deg about x", np.diag([1.0, -1, -1])), ("180 deg about z", np.diag([-1.0, -1, 1])),
                ("90 deg about z", np.array([[0, 1.0, 0], [-1, 0, 0], [0, 0, 1]]))]:
    t, ref = traj(a @ R.T), traj(a)
    t.superpose(ref)
    print("F2a %-16s rmsd after superpose = %.3g   (md.rmsd says %.3g)" % (
        name, np.sqrt(((t.xyz[0].astype(float) - ref.xyz[0]) ** 2).sum(1).mean()), md.rmsd(traj(a @ R.T), traj(a))[0]))

# F2b -- superpose of a water molecule onto a rotated copy (absolute threshold 1e-11 on |adjugate column|^2)
w = np.array([[0, 0, 0], [0.09572, 0, 0], [-0.024, 0.0927, 0]])
t, ref = traj(w @ np.array([[c, -s, 0], [s, c, 0], [0, 0, 1.0]]).T + 0.3), traj(w)
t.superpose(ref)
print("F2b water: rmsd after superpose = %.3g nm (expected ~1e-8)" % np.sqrt(((t.xyz[0].astype(float) - ref.xyz[0]) ** 2).sum(1).mean()))

# F3 -- md.rmsf with a reference and explicit atom_indices
base = rng.randn(12, 3)
frames = np.array([base + rng.normal(0, 0.01, base.shape) + shift for shift in (0.0, 0.37, 10.0, 0.37)], dtype=np.float32)
print("F3  rmsf(atom_indices=None)      ", md.rmsf(traj(frames), traj(base), 0)[:4])
print("F3  rmsf(atom_indices=arange(12))", md.rmsf(traj(frames), traj(base), 0, atom_indices=np.arange(12))[:4])
